import Rq.Model.Io
import Rq.Model.Oracle
import Rq.Model.Kernels
import Rq.Model.Plan
import Rq.Model.BitMat
import Rq.Model.Sparse
import Rq.Model.Cache
import Rq.Model.PiSolver
import Rq.Model.SlabBytes
import Rq.Model.PiCodec
/-! Driver handlers for the codec engine (E3). I/O glue around the model functions. -/
namespace Rq.DriverE3
open Rq Rq.Io

def err : String := "err"

def canonMatrix (bin : Array (List Nat)) (hd : Array (Array Nat)) : String :=
  let rows := bin.toList.map fun cols => ",".intercalate ((cols.toArray.qsort (· < ·)).toList.map toString)
  let hrows := hd.toList.map fun r => hexList r.toList
  ";".intercalate rows ++ "|" ++ ";".intercalate hrows

def digest (s : String) : String := toString (fnv s.toUTF8) ++ ":" ++ toString s.length

def parsePkts (s : String) (sbn : Nat) : List Packet :=
  if s == "-" then [] else
  (s.splitOn ",").map fun e =>
    match e.splitOn ":" with
    | [esi, h] => { pid := { sbn, esi := nat esi }, data := unhexList h }
    | [b, esi, h] => { pid := { sbn := nat b, esi := nat esi }, data := unhexList h }
    | _ => { pid := { sbn, esi := 0 }, data := [] }

def showRes : Option (List Nat) → String
  | none => "none"
  | some b => "some:" ++ hexList b

def showPkts (ps : List Packet) : String :=
  if ps.isEmpty then "-" else
  ",".intercalate (ps.map fun p => s!"{p.pid.sbn}:{p.pid.esi}:{hexList p.data}")

def oti5 (f t z n al : String) : Oti := ⟨nat f, nat t, nat z, nat n, nat al⟩

def handle (w : List String) : Option String :=
  match w with
  | ["cm", k, isis] => some <|
      match sysParams (nat k) with
      | none => err
      | some sp =>
        match constraintMatrix sp (natList isis) with
        | none => err
        | some (bin, hd) => digest (canonMatrix bin hd)
  | ["cmfull", k, isis] => some <|
      match sysParams (nat k) with
      | none => err
      | some sp =>
        match constraintMatrix sp (natList isis) with
        | none => err
        | some (bin, hd) => canonMatrix bin hd
  | ["cmnh", k, isis] => some <|
      match sysParams (nat k) with
      | none => err
      | some sp =>
        match constraintMatrixNoHdpc sp (natList isis) with
        | none => err
        | some bin => digest (canonMatrix bin #[])
  -- block encoder: payloads of the listed ESIs
  | ["enc", t, n, al, h, esis] => some <|
      let data := unhexList h
      match BlockEnc.new? oracle 0 ⟨data.length, nat t, 1, nat n, nat al⟩ data with
      | none => err
      | some e =>
        let outs := (natList esis).mapM fun esi =>
          if esi < e.k then some (e.src.getD esi []) else (e.repairPacket (esi - e.k)).map (·.data)
        match outs with
        | none => err
        | some l => ",".intercalate (l.map hexList)
  -- repair window
  | ["rep", t, h, start, cnt] => some <|
      let data := unhexList h
      match BlockEnc.new? oracle 7 ⟨data.length, nat t, 1, 1, 1⟩ data with
      | none => err
      | some e =>
        match e.repairPackets (nat start) (nat cnt) with
        | none => err
        | some ps => showPkts ps
  -- object encoder: all packets
  | ["objenc", f, t, z, n, al, h, r] => some <|
      match ObjEnc.new? oracle (unhexList h) (oti5 f t z n al) with
      | none => err
      | some e =>
        match e.packets (nat r) with
        | none => err
        | some ps => toString ps.length ++ " " ++ digest (showPkts ps)
  | ["objencfull", f, t, z, n, al, h, r] => some <|
      match ObjEnc.new? oracle (unhexList h) (oti5 f t z n al) with
      | none => err
      | some e =>
        match e.packets (nat r) with
        | none => err
        | some ps => showPkts ps
  | ["offsets", len, f, t, z, n, al] => some <|
      match blockOffsets (nat len) (oti5 f t z n al) with
      | none => err
      | some l => if l.isEmpty then "-" else ",".intercalate (l.map fun (a, b) => s!"{a}-{b}")
  -- block decoder history: batches separated by '/'
  | ["decblkpi", be, k, t, n, al, batches] => some <|
      -- the same history through the code-shaped pipeline (modelled five-phase solver, no oracle)
      match BlockDec.new? 0 ⟨nat k * nat t, nat t, 1, nat n, nat al⟩ (nat k * nat t) with
      | none => err
      | some d0 =>
        let sv := if be.endsWith "ck" then piSolverChecked (be.startsWith "sparse") else piSolver (be == "sparse")
        let step (st : Option BlockDec × List String) (b : String) : Option BlockDec × List String :=
          match st.1 with
          | none => (none, st.2 ++ [err])
          | some d =>
            match d.decode sv (parsePkts b 0) with
            | none => (none, st.2 ++ [err])
            | some (d', r, _) => (some d', st.2 ++ [showRes r])
        let (_, outs) := (batches.splitOn "/").foldl step (some d0, [])
        " ".intercalate outs
  | ["encpi", be, t, n, al, h, esis] => some <|
      let data := unhexList h
      match BlockEnc.new? (piSolver (be == "sparse")) 0 ⟨data.length, nat t, 1, nat n, nat al⟩ data with
      | none => err
      | some e =>
        let outs := (natList esis).mapM fun esi =>
          if esi < e.k then some (e.src.getD esi []) else (e.repairPacket (esi - e.k)).map (·.data)
        match outs with
        | none => err
        | some l => ",".intercalate (l.map hexList)
  | ["decblk", k, t, n, al, batches] => some <|
      match BlockDec.new? 0 ⟨nat k * nat t, nat t, 1, nat n, nat al⟩ (nat k * nat t) with
      | none => err
      | some d0 =>
        let step (st : Option BlockDec × List String) (b : String) : Option BlockDec × List String :=
          match st.1 with
          | none => (none, st.2 ++ [err])
          | some d =>
            match d.decode oracle (parsePkts b 0) with
            | none => (none, st.2 ++ [err])
            | some (d', r, _) => (some d', st.2 ++ [showRes r])
        let (_, outs) := (batches.splitOn "/").foldl step (some d0, [])
        " ".intercalate outs
  -- which decoder case the model took for one batch (statistics only)
  | ["deccase", k, t, batch] => some <|
      match BlockDec.new? 0 ⟨nat k * nat t, nat t, 1, 1, 1⟩ (nat k * nat t) with
      | none => err
      | some d0 =>
        match d0.decode oracle (parsePkts batch 0) with
        | none => err
        | some (_, _, c) => reprStr c
  -- object decoder history: ops d:<sbn>:<esi>:<hex> (decode), a:<sbn>:<esi>:<hex> (add), g (get)
  | ["decobj", f, t, z, n, al, ops] => some <|
      match ObjDec.new? (oti5 f t z n al) with
      | none => err
      | some d0 =>
        let step (st : Option ObjDec × List String) (op : String) : Option ObjDec × List String :=
          match st.1 with
          | none => (none, st.2 ++ [err])
          | some d =>
            match op.splitOn ":" with
            | ["g"] => (some d, st.2 ++ [showRes d.result])
            | ["d", b, esi, h] =>
              match d.decode oracle { pid := { sbn := nat b, esi := nat esi }, data := unhexList h } with
              | none => (none, st.2 ++ [err])
              | some (d', r) => (some d', st.2 ++ [showRes r])
            | ["a", b, esi, h] =>
              match d.add oracle { pid := { sbn := nat b, esi := nat esi }, data := unhexList h } with
              | none => (none, st.2 ++ [err])
              | some d' => (some d', st.2 ++ ["ok"])
            | _ => (none, st.2 ++ ["bad-op"])
        let (_, outs) := (ops.splitOn ",").foldl step (some d0, [])
        " ".intercalate outs
  -- rank verdict of the full system for K and a received ISI list (certified)
  | ["rank", k, isis] => some <|
      match sysParams (nat k) with
      | none => err
      | some sp =>
        let isl := natList isis
        match oracle.full sp isl (List.replicate (sp.s + sp.h + isl.length) [0]) with
        | .solved _ => "solved"
        | .singular => "singular"
        | .oracleError => err
  -- do these intermediate symbols satisfy every constraint?  chk <K> <T> <hex C (L*T)> <hex data (K*T)>
  | ["chk", k, t, hc, hd] => some <|
      match sysParams (nat k) with
      | none => err
      | some sp =>
        let t' := nat t
        let cb := (unhexList hc).toArray
        let db := (unhexList hd).toArray
        let c : Inter := Array.ofFn (n := sp.l) fun i => (cb.extract (i.val * t') ((i.val + 1) * t')).toList
        let src := (List.range (nat k)).map fun i => (db.extract (i * t') ((i + 1) * t')).toList
        match constraintMatrix sp (List.range sp.kp) with
        | none => err
        | some (bin, hdp) =>
          let a : System := { l := sp.l, bin, nLdpc := sp.s, hdpc := hdp }
          if checkSolution a c (createD sp t' src) t' then "ok" else "bad"
  | _ => none

end Rq.DriverE3

namespace Rq.DriverK
open Rq Rq.Io

def pathOf (s : String) : Option Path :=
  match s with
  | "p" => some .portable | "s" => some .ssse3 | "a" => some .avx2 | "x" => some .avx512
  | _ => none

def showO : Option (List Nat) → String
  | none => "err"
  | some l => hexList l

def handle (w : List String) : Option String :=
  match w with
  | ["krn", "add", p, hd, hs] => (pathOf p).map fun p => showO (addAssign p (unhexList hd) (unhexList hs))
  | ["krn", "mul", p, c, hd] => (pathOf p).map fun p => hexList (mulAssign p (nat c) (unhexList hd))
  | ["krn", "fma", p, c, hd, hs] => (pathOf p).map fun p => showO (fma p (nat c) (unhexList hd) (unhexList hs))
  | ["krn", "fmabin", p, c, hd, len, ws] =>
      (pathOf p).map fun p => showO (fmaBin p (nat c) (unhexList hd) ⟨natList ws, nat len⟩)
  | ["krn", "tooct", len, ws] => some (hexList (BinVec.toOctets ⟨natList ws, nat len⟩))
  | _ => none

end Rq.DriverK

namespace Rq.DriverP
open Rq Rq.Io

def parseOp (s : String) : Option SymOp :=
  match s.splitOn ":" with
  | ["a", d, r] => some (.add (nat d) (nat r))
  | ["m", d, c] => some (.mul (nat d) (nat c))
  | ["f", d, r, c] => some (.fma (nat d) (nat r) (nat c))
  | ["r", l] => some (.reorder (if l == "" then [] else (l.splitOn ".").map nat))
  | _ => none

def slices (b : Array Nat) (n t : Nat) : List Sym := (List.range n).map fun i => (b.extract (i * t) ((i + 1) * t)).toList

def handle (w : List String) : Option String :=
  match w with
  -- replay a plan on D(data): the intermediate symbols and whether they satisfy every constraint
  | ["planrun", k, t, hd, ops] => some <|
      match sysParams (nat k), (ops.splitOn ",").mapM parseOp with
      | some sp, some ol =>
        let t' := nat t
        let src := slices (unhexList hd).toArray (nat k) t'
        match replayPlan sp t' src ol with
        | none => "err"
        | some c =>
          match constraintMatrix sp (List.range sp.kp) with
          | none => "err"
          | some (bin, hdp) =>
            let a : System := { l := sp.l, bin, nLdpc := sp.s, hdpc := hdp }
            (if checkSolution a c (createD sp t' src) t' then "valid " else "INVALID ") ++ hexList c.toList.flatten
      | _, _ => "err"
  -- slab op sequence on explicit symbols:  slab <t> <hex symbols> <ops>  → all logical symbols
  | ["slab", t, hs, ops] => some <|
      match (ops.splitOn ",").mapM parseOp with
      | none => "err"
      | some ol =>
        let b := (unhexList hs).toArray
        let t' := nat t
        let n := if t' = 0 then 0 else b.size / t'
        match Slab.run { syms := (slices b n t').toArray, mapping := none } ol with
        | none => "err"
        | some s =>
          match (List.range n).mapM s.get? with
          | none => "err"
          | some l => hexList l.flatten
  -- the same op sequence on the byte-level slab (contiguous data, paired borrow with its asserts)
  | ["slabb", t, hs, ops] => some <|
      match (ops.splitOn ",").mapM parseOp with
      | none => "err"
      | some ol =>
        let b := unhexList hs
        let t' := nat t
        let n := if t' = 0 then 0 else b.length / t'
        match ol.foldlM SlabB.apply ({ data := b, count := n, ss := t', mapping := none } : SlabB) with
        | none => "err"
        | some s =>
          match (List.range n).mapM (fun i => (s.range i).map (sliceOf s.data)) with
          | none => "err"
          | some l => hexList l.flatten
  | _ => none

end Rq.DriverP

namespace Rq.DriverM
open Rq Rq.Io

inductive AnyMat where
  | spec (m : BitMat)
  | dense (m : Dense)
  | sparse (m : Sparse)

def sortNat (l : List Nat) : List Nat := (l.toArray.qsort (· < ·)).toList

def stepSparse (m : Sparse) (op : List String) : Option (Sparse × String) :=
  match op with
  | ["s", r, c, v] => (m.set (nat r) (nat c) (v == "1")).map fun m' => (m', "ok")
  | ["g", r, c] => (m.get (nat r) (nat c)).map fun v => (m, if v then "1" else "0")
  | ["sr", i, j] => (m.swapRows (nat i) (nat j)).map fun m' => (m', "ok")
  | ["sc", i, j, _] => (m.swapCols (nat i) (nat j)).map fun m' => (m', "ok")
  | ["aa", d, s, st] => (m.addAssign (nat d) (nat s) (nat st)).map fun m' => (m', "ok")
  | ["co", r, a, b] => (m.countOnes (nat r) (nat a) (nat b)).map fun n => (m, toString n)
  | ["it", r, a, b] => (m.rowIter (nat r) (nat a) (nat b)).map fun l => (m, showList (sortNat l))
  | ["oc", c, a, b] => (m.onesInCol (nat c) (nat a) (nat b)).map fun l => (m, showList (sortNat l))
  | ["sro", r, s] => (m.subRow (nat r) (nat s)).map fun b => (m, s!"{b.length}:{showList b.words}")
  | ["nz", r, s] => (m.nonZeroCols (nat r) (nat s)).map fun l => (m, showList (sortNat l))
  | ["fr", c] => (m.freeze (nat c)).map fun m' => (m', "ok")
  | ["en"] => m.enableIndex.map fun m' => (m', "ok")
  | ["di"] => some (m.disableIndex, "ok")
  | ["rs", h, w] => (m.resize (nat h) (nat w)).map fun m' => (m', "ok")
  | ["dims"] => some (m, s!"{m.h}x{m.w}")
  | _ => none

def showBits (b : BinVec) : String := s!"{b.length}:{showList b.words}"

/-- one op on either model; returns (new state, output token); `none` = panic -/
def stepOp (st : AnyMat) (op : List String) : Option (AnyMat × String) :=
  match st, op with
  | .sparse m, op => (stepSparse m op).map fun (m', o) => (.sparse m', o)
  | .spec m, ["s", r, c, v] => (m.set (nat r) (nat c) (v == "1")).map fun m' => (.spec m', "ok")
  | .dense m, ["s", r, c, v] => (m.set (nat r) (nat c) (v == "1")).map fun m' => (.dense m', "ok")
  | .spec m, ["g", r, c] => if nat r < m.h ∧ nat c < m.w then some (st, if m.get (nat r) (nat c) then "1" else "0") else none
  | .dense m, ["g", r, c] => (m.get (nat r) (nat c)).map fun v => (st, if v then "1" else "0")
  | .spec m, ["sr", i, j] => (m.swapRows (nat i) (nat j)).map fun m' => (.spec m', "ok")
  | .dense m, ["sr", i, j] => (m.swapRows (nat i) (nat j)).map fun m' => (.dense m', "ok")
  | .spec m, ["sc", i, j, _] => (m.swapCols (nat i) (nat j)).map fun m' => (.spec m', "ok")
  | .dense m, ["sc", i, j, h] => (m.swapCols (nat i) (nat j) (nat h)).map fun m' => (.dense m', "ok")
  | .spec m, ["aa", d, s, _] => (m.addAssign (nat d) (nat s)).map fun m' => (.spec m', "ok")
  | .dense m, ["aa", d, s, _] => (m.addAssign (nat d) (nat s)).map fun m' => (.dense m', "ok")
  | .spec m, ["co", r, a, b] => some (st, toString (m.countOnes (nat r) (nat a) (nat b)))
  | .dense m, ["co", r, a, b] => (m.countOnes (nat r) (nat a) (nat b)).map fun n => (st, toString n)
  | .spec m, ["it", r, a, b] => some (st, showList (m.onesIn (nat r) (nat a) (nat b)))
  | .dense m, ["it", r, a, b] =>
      (m.rowIter (nat r) (nat a) (nat b)).map fun l => (st, showList (l.filterMap fun (c, v) => if v then some c else none))
  | .spec m, ["oc", c, a, b] => some (st, showList (m.onesInCol (nat c) (nat a) (nat b)))
  | .dense m, ["oc", c, a, b] => (m.onesInCol (nat c) (nat a) (nat b)).map fun l => (st, showList l)
  | .spec m, ["sro", r, s] => some (st, showBits (m.subRow (nat r) (nat s)))
  | .dense m, ["sro", r, s] => (m.subRow (nat r) (nat s)).map fun b => (st, showBits b)
  | .spec m, ["nz", r, s] => some (st, showList (m.onesIn (nat r) (nat s) m.w))
  | .dense m, ["nz", r, s] =>
      (m.rowIter (nat r) (nat s) m.w).map fun l => (st, showList (l.filterMap fun (c, v) => if v then some c else none))
  | _, ["fr", _] => some (st, "ok")
  | _, ["en"] => some (st, "ok")
  | _, ["di"] => some (st, "ok")
  | .spec m, ["rs", h, w] => (m.resize (nat h) (nat w)).map fun m' => (.spec m', "ok")
  | .dense m, ["rs", h, w] => (m.resize (nat h) (nat w)).map fun m' => (.dense m', "ok")
  | .spec m, ["dims"] => some (st, s!"{m.h}x{m.w}")
  | .dense m, ["dims"] => some (st, s!"{m.h}x{m.w}")
  | _, _ => none

def handle (w : List String) : Option String :=
  match w with
  | ["mat", kind, h, wd, ops] =>
      let st0 : AnyMat :=
        if kind == "dense" then .dense (Dense.new (nat h) (nat wd))
        else if kind.startsWith "sparse" then .sparse (Sparse.new (nat h) (nat wd) (nat (kind.drop 6).toString))
        else .spec (BitMat.new (nat h) (nat wd))
      let (_, outs) := (ops.splitOn ";").foldl (fun (acc : Option AnyMat × List String) op =>
        match acc.1 with
        | none => (none, acc.2 ++ ["-"])
        | some st =>
          match stepOp st (op.splitOn ":") with
          | none => (none, acc.2 ++ ["err"])
          | some (st', o) => (some st', acc.2 ++ [o])) (some st0, [])
      some (" ".intercalate outs)
  | _ => none

end Rq.DriverM

namespace Rq.DriverC
open Rq Rq.Io

def parseEv (s : String) : Option Ev :=
  match s.splitOn ":" with
  | ["s", t, k] => some (.spawn (nat t) (nat k))
  | ["t", t] => some (.step (nat t))
  | _ => none

def showReq : Req Nat → String
  | .idle => "idle"
  | .wantLookup k => s!"L{k}"
  | .generating k => s!"G{k}"
  | .wantInsert k _ => s!"I{k}"
  | .done k p => s!"D{k}={p}"

/-- snapshot: sorted keys | FIFO order | (key, plan's own symbol count) sorted | thread states -/
def snap (s : CacheState Nat) : String :=
  let keys := (s.cache.plans.map (·.1)).toArray.qsort (· < ·) |>.toList
  let cnt := (s.cache.plans.toArray.qsort (fun a b => a.1 < b.1)).toList.map fun (k, p) => s!"{k}={p}"
  showList keys ++ "|" ++ showList s.cache.order ++ "|" ++ (if cnt.isEmpty then "-" else ",".intercalate cnt)
    ++ "|" ++ ",".intercalate (s.threads.map showReq)

def handle (w : List String) : Option String :=
  match w with
  -- cache <capacity> <threads> <events>: the snapshot after every event (plans are abstract: gen k = k)
  | ["cache", cap, n, evs] =>
      match (evs.splitOn ",").mapM parseEv with
      | none => some "err"
      | some l =>
        let (_, outs) := l.foldl (fun (acc : CacheState Nat × List String) ev =>
          let s' := acc.1.next id (nat cap) ev
          (s', acc.2 ++ [snap s'])) (CacheState.init (nat n), [])
        some (" ".intercalate outs)
  | _ => none

end Rq.DriverC

namespace Rq.DriverS
open Rq Rq.Io

def showOp : SymOp → String
  | .add d s => s!"a:{d}:{s}"
  | .mul d c => s!"m:{d}:{c}"
  | .fma d s c => s!"f:{d}:{s}:{c}"
  | .reorder o => "r:" ++ ".".intercalate (o.map toString)

def handle (w : List String) : Option String :=
  match w with
  -- pisolve <K> <isis or '-'> dense|sparse : digest of the operation vector of the modelled five-phase solver
  | ["pisolve", k, isis, be] => some <|
      match sysParams (nat k) with
      | none => "err"
      | some sp =>
        let isl := if isis == "-" then List.range sp.kp else natList isis
        let r := if be == "sparse" then piSolveSparse sp isl else piSolveDense sp isl
        match r with
        | none => "none"
        | some ops =>
          let s := ",".intercalate (ops.map showOp)
          toString ops.length ++ " " ++ toString (fnv s.toUTF8)
  -- opscert <K> <isis or '-'> <ops of the implementation or 'none'> : translation validation of one run of the
  -- crate's solver, independent of the solver model: is its operation vector a left-inverse certificate
  -- (`certOk`, theorem cert_sound), and what does the verified oracle say about the system?
  | ["opscert", k, isis, ops] => some <|
      match sysParams (nat k) with
      | none => "err"
      | some sp =>
        let isl := if isis == "-" then List.range sp.kp else natList isis
        match piSolverChecked.fullSystem' sp isl with
        | none => "err"
        | some a =>
          let orc := match oracle.full sp isl (List.replicate (sp.s + sp.h + isl.length) [0]) with
            | .solved _ => "determined"
            | .singular => "singular"
            | .oracleError => "err"
          if ops == "none" then "gaveup oracle=" ++ orc
          else match (ops.splitOn ",").mapM Rq.DriverP.parseOp with
            | none => "err"
            | some ol => (if certOk a ol then "cert=ok" else "cert=BAD") ++ " oracle=" ++ orc
  | _ => none

end Rq.DriverS
