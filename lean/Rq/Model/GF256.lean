import Rq.Model.Tab
/-!
Model of `src/octet.rs`: octet arithmetic through the OCT_EXP / OCT_LOG tables, exactly as coded
(zero cases first, then `OCT_EXP[log u + log v]`, division `OCT_EXP[255 + log u - log v]`), and
the three derived tables as the crate's `const fn`s build them.
-/
namespace Rq

def oexp (i : Nat) : Nat := tget octExpA i
def olog (a : Nat) : Nat := tget octLogA a

/-- `Octet::add` / `sub` -/
def gadd (a b : Nat) : Nat := a ^^^ b
/-- `&Octet * &Octet` -/
def gmul (a b : Nat) : Nat := if a = 0 ∨ b = 0 then 0 else oexp (olog a + olog b)
/-- `&Octet / &Octet`; `none` = the `assert_ne!(0, rhs)` -/
def gdiv (a b : Nat) : Option Nat :=
  if b = 0 then none else if a = 0 then some 0 else some (oexp (255 + olog a - olog b))
/-- `Octet::fma`: self ^= o1 * o2 -/
def gfma (c a b : Nat) : Nat := if a ≠ 0 ∧ b ≠ 0 then c ^^^ oexp (olog a + olog b) else c
/-- `Octet::alpha(i)`; `none` = `assert!(i < 256)` -/
def galpha (i : Nat) : Option Nat := if i < 256 then some (oexp i) else none

/-- `const_mul` of octet.rs (no zero test!) -/
def constMul (x y : Nat) : Nat := oexp (olog x + olog y)
/-- OCTET_MUL as built by `calculate_octet_mul_table`: zero row / column stay 0 -/
def mulTableEntry (i j : Nat) : Nat := if i = 0 ∨ j = 0 then 0 else constMul i j
/-- OCTET_MUL_LOW_BITS[i][j], j < 32 -/
def lowTableEntry (i j : Nat) : Nat :=
  let jj := j % 16
  if i = 0 ∨ jj = 0 then 0 else constMul i jj
/-- OCTET_MUL_HI_BITS[i][j], j < 32 -/
def hiTableEntry (i j : Nat) : Nat :=
  let jj := j % 16
  if i = 0 ∨ jj = 0 then 0 else constMul i (jj * 16)

/-- the look-ups the kernels perform on the real (dumped) tables -/
def mulLookup (s x : Nat) : Nat := tget octMulA (s * 256 + x)
def lowLookup (s j : Nat) : Nat := tget octMulLoA (s * 32 + j)
def hiLookup (s j : Nat) : Nat := tget octMulHiA (s * 32 + j)

end Rq
