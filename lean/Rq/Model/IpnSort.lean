/-!
Model of Rust's `slice::sort_unstable_by` (`core::slice::sort::unstable`, "ipnsort", as shipped
since Rust 1.81) for element types that are `Copy + Freeze` and at most 8 bytes wide — the case of
the `(u16, u32)` / `(u16, u16)` pairs sorted in `src/arraymap.rs`:

* `sort`                : `len ≤ 20` → `insertion_sort_shift_left`, else `ipnsort`
* `ipnsort`             : an already sorted / strictly descending input is finished at once, else
                          `quicksort` with `limit = 2 * ilog2(len | 1)`
* `quicksort`           : `len ≤ 32` → `small_sort_network`; `limit = 0` → `heapsort`;
                          `choose_pivot` (median of 3, recursive for `len ≥ 64`), the equal-elements
                          partition when the pivot equals the ancestor pivot,
                          `partition_lomuto_branchless_cyclic`
* `small_sort_network`  : `sort13_optimal` / `sort9_optimal` + insertion sort on the halves, then
                          `bidirectional_merge`

The sort is *not* stable; the model reproduces the data movement of the library code, so that the
order among equal keys is the one the real code produces.
-/
namespace Rq
namespace IpnSort

variable {α : Type} [Inhabited α]

@[inline] def at' (a : Array α) (i : Nat) : α := a.getD i default

/-- `insert_tail(begin, tail)`: sorts [begin, tail] assuming [begin, tail) is sorted -/
def insertTail (lt : α → α → Bool) (a : Array α) (begin tail : Nat) : Array α := Id.run do
  let tmp := at' a tail
  if !(lt tmp (at' a (tail - 1))) then return a
  let mut a := a
  let mut sift := tail - 1
  let mut dst := tail
  for _ in [0:tail - begin] do
    a := a.setIfInBounds dst (at' a sift)
    dst := sift
    if sift == begin then break
    sift := sift - 1
    if !(lt tmp (at' a sift)) then break
  return a.setIfInBounds dst tmp

/-- `insertion_sort_shift_left(v, offset)` on `v = a[lo..hi]` -/
def insertionSortShiftLeft (lt : α → α → Bool) (a : Array α) (lo hi offset : Nat) : Array α :=
  Id.run do
    let mut a := a
    for tail in [lo + offset:hi] do
      a := insertTail lt a lo tail
    return a

/-- `find_existing_run` on `a[lo..hi]`: (run length, strictly descending?) -/
def findExistingRun (lt : α → α → Bool) (a : Array α) (lo hi : Nat) : Nat × Bool := Id.run do
  let len := hi - lo
  if len < 2 then return (len, false)
  let mut runLen := 2
  let strictlyDescending := lt (at' a (lo + 1)) (at' a lo)
  for _ in [2:len] do
    if !(runLen < len) then break
    let l := lt (at' a (lo + runLen)) (at' a (lo + runLen - 1))
    if strictlyDescending then
      if !l then break
    else
      if l then break
    runLen := runLen + 1
  return (runLen, strictlyDescending)

/-- `v.reverse()` on `a[lo..hi]` -/
def reverseRange (a : Array α) (lo hi : Nat) : Array α := Id.run do
  let mut a := a
  for k in [0:(hi - lo) / 2] do
    a := a.swapIfInBounds (lo + k) (hi - 1 - k)
  return a

/-- `median3` on indices -/
def median3 (lt : α → α → Bool) (arr : Array α) (a b c : Nat) : Nat :=
  let x := lt (at' arr a) (at' arr b)
  let y := lt (at' arr a) (at' arr c)
  if x == y then
    let z := lt (at' arr b) (at' arr c)
    if z != x then c else b
  else a

/-- `median3_rec` (fuel: the section length is divided by 8 in every level) -/
def median3Rec (lt : α → α → Bool) (arr : Array α) : Nat → Nat → Nat → Nat → Nat → Nat
  | 0, a, b, c, _ => median3 lt arr a b c
  | fuel + 1, a, b, c, n =>
    if n * 8 ≥ 64 then
      let n8 := n / 8
      let a := median3Rec lt arr fuel a (a + n8 * 4) (a + n8 * 7) n8
      let b := median3Rec lt arr fuel b (b + n8 * 4) (b + n8 * 7) n8
      let c := median3Rec lt arr fuel c (c + n8 * 4) (c + n8 * 7) n8
      median3 lt arr a b c
    else median3 lt arr a b c

/-- `choose_pivot` on `a[lo..hi]` (len ≥ 8); the result is an absolute index -/
def choosePivot (lt : α → α → Bool) (arr : Array α) (lo hi : Nat) : Nat :=
  let len := hi - lo
  let lenDiv8 := len / 8
  let a := lo
  let b := lo + lenDiv8 * 4
  let c := lo + lenDiv8 * 7
  if len < 64 then median3 lt arr a b c else median3Rec lt arr 64 a b c lenDiv8

/-- `partition_lomuto_branchless_cyclic(v, pivot)` on `v = a[base .. base+len]`; `isLess elem pivot`.
The unrolled main loop and the clean-up loop execute the same `loop_body` for
right = 1, …, len-1 and finally for the saved gap value. -/
def partitionLomutoBranchlessCyclic (isLess : α → α → Bool) (a : Array α) (base len : Nat)
    (pivot : α) : Array α × Nat := Id.run do
  if len == 0 then return (a, 0)
  let gapValue := at' a base
  let mut a := a
  let mut numLt := 0
  let mut gapPos := base
  for right in [base + 1:base + len] do
    let rightVal := at' a right
    let rightIsLt := isLess rightVal pivot
    let left := base + numLt
    a := a.setIfInBounds gapPos (at' a left)
    a := a.setIfInBounds left rightVal
    gapPos := right
    if rightIsLt then numLt := numLt + 1
  -- the final round: `right` = the saved gap value
  let rightIsLt := isLess gapValue pivot
  let left := base + numLt
  a := a.setIfInBounds gapPos (at' a left)
  a := a.setIfInBounds left gapValue
  if rightIsLt then numLt := numLt + 1
  return (a, numLt)

/-- `partition(v, pivot_pos, is_less)` on `v = a[lo..hi]` (pivotPos absolute); returns `num_lt` -/
def partition (isLess : α → α → Bool) (a : Array α) (lo hi pivotPos : Nat) : Array α × Nat :=
  if hi - lo == 0 then (a, 0) else
  let a := a.swapIfInBounds lo pivotPos
  let pivot := at' a lo
  let (a, numLt) := partitionLomutoBranchlessCyclic isLess a (lo + 1) (hi - lo - 1) pivot
  (a.swapIfInBounds lo (lo + numLt), numLt)

/-- `swap_if_less(v_base, a_pos, b_pos)` -/
def swapIfLess (lt : α → α → Bool) (a : Array α) (base aPos bPos : Nat) : Array α :=
  if lt (at' a (base + bPos)) (at' a (base + aPos)) then a.swapIfInBounds (base + aPos) (base + bPos)
  else a

def sort9Net : List (Nat × Nat) :=
  [(0, 3), (1, 7), (2, 5), (4, 8), (0, 7), (2, 4), (3, 8), (5, 6), (0, 2), (1, 3), (4, 5), (7, 8),
   (1, 4), (3, 6), (5, 7), (0, 1), (2, 4), (3, 5), (6, 8), (2, 3), (4, 5), (6, 7), (1, 2), (3, 4),
   (5, 6)]

def sort13Net : List (Nat × Nat) :=
  [(0, 12), (1, 10), (2, 9), (3, 7), (5, 11), (6, 8), (1, 6), (2, 3), (4, 11), (7, 9), (8, 10),
   (0, 4), (1, 2), (3, 6), (7, 8), (9, 10), (11, 12), (4, 6), (5, 9), (8, 11), (10, 12), (0, 5),
   (3, 8), (4, 7), (6, 11), (9, 10), (0, 1), (2, 5), (6, 9), (7, 8), (10, 11), (1, 3), (2, 4),
   (5, 6), (9, 10), (1, 2), (3, 4), (5, 7), (6, 8), (2, 3), (4, 5), (6, 7), (8, 9), (3, 4), (5, 6)]

/-- `sort9_optimal` / `sort13_optimal` -/
def sortNet (lt : α → α → Bool) (net : List (Nat × Nat)) (a : Array α) (base : Nat) : Array α :=
  net.foldl (fun a (p, q) => swapIfLess lt a base p q) a

/-- `bidirectional_merge(v, dst)` for `v = a[lo .. lo+len]` (both halves sorted): the merged
sequence, written back over `a[lo .. lo+len]` (the code merges into a scratch array and copies it
back). The reverse cursors are kept one above their value (they may end one before the start). -/
def bidirectionalMerge (lt : α → α → Bool) (a : Array α) (lo len : Nat) : Array α := Id.run do
  let lenDiv2 := len / 2
  let mut dst : Array α := Array.replicate len default
  let mut left := 0
  let mut right := lenDiv2
  let mut d := 0
  let mut leftRev1 := lenDiv2        -- left_rev + 1
  let mut rightRev1 := len           -- right_rev + 1
  let mut dRev1 := len               -- dst_rev + 1
  for _ in [0:lenDiv2] do
    -- merge_up
    let isL := !(lt (at' a (lo + right)) (at' a (lo + left)))
    dst := dst.setIfInBounds d (if isL then at' a (lo + left) else at' a (lo + right))
    if isL then left := left + 1 else right := right + 1
    d := d + 1
    -- merge_down
    let isL := !(lt (at' a (lo + rightRev1 - 1)) (at' a (lo + leftRev1 - 1)))
    dst := dst.setIfInBounds (dRev1 - 1)
      (if isL then at' a (lo + rightRev1 - 1) else at' a (lo + leftRev1 - 1))
    if isL then rightRev1 := rightRev1 - 1 else leftRev1 := leftRev1 - 1
    dRev1 := dRev1 - 1
  if len % 2 != 0 then
    -- odd length: one element is left unconsumed in the input
    let leftNonempty := left < leftRev1
    dst := dst.setIfInBounds d (if leftNonempty then at' a (lo + left) else at' a (lo + right))
  let mut a := a
  for k in [0:len] do
    a := a.setIfInBounds (lo + k) (at' dst k)
  return a

/-- `small_sort_network` on `a[lo..hi]` (len ≤ 32) -/
def smallSortNetwork (lt : α → α → Bool) (a : Array α) (lo hi : Nat) : Array α := Id.run do
  let len := hi - lo
  if len < 2 then return a
  let lenDiv2 := len / 2
  let noMerge := len < 18
  let mut a := a
  -- the region(s): the whole slice, or its two halves
  let regions : List (Nat × Nat) :=
    if noMerge then [(lo, hi)] else [(lo, lo + lenDiv2), (lo + lenDiv2, hi)]
  for (rlo, rhi) in regions do
    let rlen := rhi - rlo
    let mut presortedLen := 1
    if rlen ≥ 13 then
      a := sortNet lt sort13Net a rlo
      presortedLen := 13
    else if rlen ≥ 9 then
      a := sortNet lt sort9Net a rlo
      presortedLen := 9
    a := insertionSortShiftLeft lt a rlo rhi presortedLen
  if noMerge then return a
  return bidirectionalMerge lt a lo len

/-- `sift_down(v, node)` on `v = a[lo .. lo+len]` -/
def siftDown (lt : α → α → Bool) (a : Array α) (lo len node : Nat) : Array α := Id.run do
  let mut a := a
  let mut node := node
  for _ in [0:len] do
    let mut child := 2 * node + 1
    if child ≥ len then break
    if child + 1 < len then
      if lt (at' a (lo + child)) (at' a (lo + child + 1)) then child := child + 1
    if !(lt (at' a (lo + node)) (at' a (lo + child))) then break
    a := a.swapIfInBounds (lo + node) (lo + child)
    node := child
  return a

/-- `heapsort` on `a[lo..hi]` -/
def heapsort (lt : α → α → Bool) (a : Array α) (lo hi : Nat) : Array α := Id.run do
  let len := hi - lo
  let mut a := a
  let n := len + len / 2
  for k in [0:n] do
    let i := n - 1 - k
    let mut siftIdx := 0
    if i ≥ len then
      siftIdx := i - len
    else
      a := a.swapIfInBounds lo (lo + i)
    a := siftDown lt a lo (min i len) siftIdx
  return a

/-- `quicksort(v, ancestor_pivot, limit)` on `v = a[lo..hi]`. Every round (and every recursive
call) works on a strictly shorter slice, which bounds the fuel by the length. -/
def quicksort (lt : α → α → Bool) : Nat → Array α → Nat → Nat → Option α → Nat → Array α
  | 0, a, _, _, _, _ => a
  | fuel + 1, a, lo, hi, ancestorPivot, limit =>
    if hi - lo ≤ 32 then smallSortNetwork lt a lo hi
    else if limit == 0 then heapsort lt a lo hi
    else
      let limit := limit - 1
      let pivotPos := choosePivot lt a lo hi
      let equalCase := match ancestorPivot with
        | some p => !(lt p (at' a pivotPos))
        | none => false
      if equalCase then
        -- the pivot equals the predecessor: split into equal and greater elements
        let (a, numLt) := partition (fun x y => !(lt y x)) a lo hi pivotPos
        quicksort lt fuel a (lo + numLt + 1) hi none limit
      else
        let (a, numLt) := partition lt a lo hi pivotPos
        let pivot := at' a (lo + numLt)
        let a := quicksort lt fuel a lo (lo + numLt) ancestorPivot limit
        quicksort lt fuel a (lo + numLt + 1) hi (some pivot) limit

/-- `ipnsort` -/
def ipnsort (lt : α → α → Bool) (a : Array α) : Array α :=
  let len := a.size
  let (runLen, wasReversed) := findExistingRun lt a 0 len
  if runLen == len then
    if wasReversed then reverseRange a 0 len else a
  else
    let limit := 2 * Nat.log2 (len ||| 1)
    quicksort lt (len + 1) a 0 len none limit

/-- `slice::sort_unstable_by(|a, b| lt a b)` -/
def sortUnstableBy (lt : α → α → Bool) (a : Array α) : Array α :=
  let len := a.size
  if len < 2 then a
  else if len ≤ 20 then insertionSortShiftLeft lt a 0 len 1
  else ipnsort lt a

end IpnSort
end Rq
