import Rq.Model.GF256
/-!
Model of `src/octets.rs`: the bulk kernels as their control skeletons over byte lists — the
vector body `for i in 0..len/W`, the `u64` tail loop, the byte tail loop, the head of the binary
FMA kernels — with explicit offsets exactly as the code computes them. A buffer is a `List Nat`
of bytes; a vector load / store is a window of the list. Every load and store is also recorded
as an *access* (offset, width) so that in-bounds-ness (C12) is a statement about the same
skeleton. Lane-level semantics of the intrinsics (nibble split by mask + 64-bit shift, `pshufb`
per 128-bit lane, masked move, bit test) are modelled byte-wise from the vendor description.
-/
namespace Rq

/-- window read; out-of-range positions read as 0 *in the model* — the access list makes such a
read a C12 violation, it is never silently accepted -/
def loadAt (d : List Nat) (off w : Nat) : List Nat := (List.range w).map fun j => d.getD (off + j) 0

/-- window write of `v` at `off` (only positions inside the buffer exist in the model) -/
def storeAt (d : List Nat) (off : Nat) (v : List Nat) : List Nat :=
  d.mapIdx fun i x => if off ≤ i ∧ i < off + v.length then v.getD (i - off) 0 else x

structure Access where
  buf : Nat      -- 0 = dest, 1 = src, 2 = packed words (in u64 units × 8 bytes)
  off : Nat
  width : Nat
deriving Repr, DecidableEq

/-- `for i in lo..hi { d[i*w .. i*w+w] = f(d[i*w..], s[i*w..]) }` -/
def vecLoop (w : Nat) (f : List Nat → List Nat → List Nat) (lo hi : Nat) (d s : List Nat) : List Nat :=
  (List.range (hi - lo)).foldl (fun d k =>
    let i := lo + k
    storeAt d (i * w) (f (loadAt d (i * w) w) (loadAt s (i * w) w))) d

def vecLoopAccesses (w lo hi : Nat) (twoBufs : Bool) : List Access :=
  (List.range (hi - lo)).flatMap fun k =>
    let i := lo + k
    [⟨0, i * w, w⟩] ++ (if twoBufs then [⟨1, i * w, w⟩] else [])

/-- `for i in lo..hi { d[i] = g(d[i], s[i]) }` -/
def byteLoop (g : Nat → Nat → Nat) (lo hi : Nat) (d s : List Nat) : List Nat :=
  vecLoop 1 (fun a b => [g (a.getD 0 0) (b.getD 0 0)]) lo hi d s

/-! ### lane functions -/

def xorBlock (a b : List Nat) : List Nat := List.zipWith (· ^^^ ·) a b

/-- little-endian value of a group of bytes / back -/
def leVal (g : List Nat) : Nat := g.foldr (fun b acc => b + 256 * acc) 0
def leBytes (n v : Nat) : List Nat := (List.range n).map fun j => (v >>> (8 * j)) % 256

/-- `_mm*_srli_epi64(v, 4)` on a block: each 8-byte group is shifted as one 64-bit integer -/
def srli4 (blk : List Nat) : List Nat :=
  (List.range (blk.length / 8)).flatMap fun g => leBytes 8 (leVal ((blk.drop (8 * g)).take 8) >>> 4)

/-- `pshufb`: per 128-bit lane, index byte with bit 7 set gives 0, else table[lane][idx & 15];
`tab` has one 16-byte row per lane (`laneRows` = 1 when the same 16 bytes are broadcast) -/
def pshufb (tab : List Nat) (laneRows : Nat) (idx : List Nat) : List Nat :=
  idx.mapIdx fun j i =>
    if i ≥ 128 then 0 else tab.getD (16 * ((j / 16) % laneRows) + i % 16) 0

inductive Isa where
  | ssse3 | avx2 | avx512
deriving Repr, DecidableEq

def Isa.width : Isa → Nat
  | .ssse3 => 16 | .avx2 => 32 | .avx512 => 64

/-- table operand: SSSE3 loads 16 bytes, AVX2 loads the 32-byte row (two lanes), AVX-512
broadcasts the first 16 bytes to all four lanes -/
def lowTab (isa : Isa) (s : Nat) : List Nat × Nat :=
  match isa with
  | .avx2 => ((List.range 32).map (lowLookup s), 2)
  | _ => ((List.range 16).map (lowLookup s), 1)
def hiTab (isa : Isa) (s : Nat) : List Nat × Nat :=
  match isa with
  | .avx2 => ((List.range 32).map (hiLookup s), 2)
  | _ => ((List.range 16).map (hiLookup s), 1)

/-- the vector multiply-by-scalar of one block, as each ISA computes the two nibbles:
SSSE3/AVX2: `hi = srli(v & 0xF0, 4)`; AVX-512: `hi = srli(v, 4) & 0x0F` -/
def nibbleMul (isa : Isa) (s : Nat) (blk : List Nat) : List Nat :=
  let low := blk.map (· &&& 0x0F)
  let hi := match isa with
    | .avx512 => (srli4 blk).map (· &&& 0x0F)
    | _ => srli4 (blk.map (· &&& 0xF0))
  let (lt, lr) := lowTab isa s
  let (ht, hr) := hiTab isa s
  xorBlock (pshufb ht hr hi) (pshufb lt lr low)

/-! ### add_assign -/

/-- `add_assign_{avx512,avx2,ssse3}`: vector body, then u64 words, then bytes -/
def addAssignVec (w : Nat) (d s : List Nat) : List Nat :=
  let len := d.length
  let d := vecLoop w xorBlock 0 (len / w) d s
  let d := vecLoop 8 xorBlock ((len - len % w) / 8) (len / 8) d s
  byteLoop (· ^^^ ·) (len - len % 8) len d s

def addAssignVecAccesses (w len : Nat) : List Access :=
  vecLoopAccesses w 0 (len / w) true ++ vecLoopAccesses 8 ((len - len % w) / 8) (len / 8) true
    ++ vecLoopAccesses 1 (len - len % 8) len true

/-- `add_assign_fallback` -/
def addAssignFallback (d s : List Nat) : List Nat :=
  let len := d.length
  let d := vecLoop 8 xorBlock 0 (len / 8) d s
  byteLoop (· ^^^ ·) (len - len % 8) len d s

def addAssignFallbackAccesses (len : Nat) : List Access :=
  vecLoopAccesses 8 0 (len / 8) true ++ vecLoopAccesses 1 (len - len % 8) len true

/-! ### mulassign_scalar -/

def mulAssignVec (isa : Isa) (c : Nat) (d : List Nat) : List Nat :=
  let len := d.length
  let w := isa.width
  let d := vecLoop w (fun a _ => nibbleMul isa c a) 0 (len / w) d []
  byteLoop (fun a _ => mulLookup c a) (len - len % w) len d []

def mulAssignVecAccesses (isa : Isa) (len : Nat) : List Access :=
  vecLoopAccesses isa.width 0 (len / isa.width) false ++ vecLoopAccesses 1 (len - len % isa.width) len false

def mulAssignFallback (c : Nat) (d : List Nat) : List Nat :=
  byteLoop (fun a _ => mulLookup c a) 0 d.length d []

/-! ### fused_addassign_mul_scalar -/

def fmaVec (isa : Isa) (c : Nat) (d s : List Nat) : List Nat :=
  let len := d.length
  let w := isa.width
  let d := vecLoop w (fun a b => xorBlock a (nibbleMul isa c b)) 0 (len / w) d s
  byteLoop (fun a b => a ^^^ mulLookup c b) (len - len % w) len d s

def fmaVecAccesses (isa : Isa) (len : Nat) : List Access :=
  vecLoopAccesses isa.width 0 (len / isa.width) true ++ vecLoopAccesses 1 (len - len % isa.width) len true

def fmaFallback (c : Nat) (d s : List Nat) : List Nat :=
  byteLoop (fun a b => a ^^^ mulLookup c b) 0 d.length d s

/-! ### BinaryOctetVec and the binary FMA kernels -/

/-- packed binary vector: `length` values right-aligned in `words` (u64), padding bits low in word 0 -/
structure BinVec where
  words : List Nat
  length : Nat
deriving Repr, DecidableEq

def BinVec.padding (b : BinVec) : Nat := (64 - b.length % 64) % 64
/-- `BinaryOctetVec::new` assert -/
def BinVec.wf (b : BinVec) : Bool := b.words.length == (b.length + 63) / 64

def bitOf (word bit : Nat) : Nat := (word >>> bit) % 2

/-- `to_octet_vec` -/
def BinVec.toOctets (b : BinVec) : List Nat :=
  (List.range b.length).map fun i =>
    let p := b.padding + i
    bitOf (b.words.getD (p / 64) 0) (p % 64)

/-- the words reinterpreted as units of `u` bits (u = 32: `*const u32`, little endian) -/
def BinVec.unit (b : BinVec) (u : Nat) (idx : Nat) : Nat :=
  let per := 64 / u
  (b.words.getD (idx / per) 0 >>> (u * (idx % per))) % 2 ^ u

/-- `fused_addassign_mul_scalar_binary_{avx512 (u=64), avx2 (u=32)}`: head of `u - bit_in_first`
elements taken from the first unit, then whole units; AVX-512 skips all-zero words. -/
def fmaBinVec (u : Nat) (c : Nat) (d : List Nat) (o : BinVec) : List Nat :=
  let firstBit := o.padding
  let start := firstBit / u
  let firstBits := o.unit u start
  let bitIn := firstBit % u
  let headN := if bitIn > 0 then u - bitIn else 0
  -- head: `take(headN)` elements (AVX2) / exactly headN raw writes (AVX-512)
  let d := (List.range headN).foldl (fun d i =>
    storeAt d i [d.getD i 0 ^^^ (c * bitOf firstBits (bitIn + i)) % 256]) d
  let remaining := d.length - headN
  let start := if bitIn > 0 then start + 1 else start
  (List.range (remaining / u)).foldl (fun d i =>
    let bits := o.unit u (start + i)
    let prod := (List.range u).map fun j => if bitOf bits j = 1 then c else 0
    storeAt d (headN + i * u) (xorBlock (loadAt d (headN + i * u) u) prod)) d

def fmaBinVecAccesses (u len : Nat) (o : BinVec) : List Access :=
  let firstBit := o.padding
  let bitIn := firstBit % u
  let headN := if bitIn > 0 then u - bitIn else 0
  let start := firstBit / u
  let start' := if bitIn > 0 then start + 1 else start
  [⟨2, start * (u / 8), u / 8⟩] ++ (List.range headN).map (fun i => ⟨0, i, 1⟩) ++
    (List.range ((len - headN) / u)).flatMap fun i =>
      [⟨2, (start' + i) * (u / 8), u / 8⟩, ⟨0, headN + i * u, u⟩]

/-- the `remaining % u == 0` assert of the binary kernels -/
def fmaBinVecAssert (u len : Nat) (o : BinVec) : Bool :=
  let bitIn := o.padding % u
  let headN := if bitIn > 0 then u - bitIn else 0
  decide (headN ≤ len) && (len - headN) % u == 0

/-! ### dispatch -/

inductive Path where
  | portable | ssse3 | avx2 | avx512
deriving Repr, DecidableEq

def addAssign (p : Path) (d s : List Nat) : Option (List Nat) :=
  if d.length ≠ s.length then none else
  match p with
  | .portable => some (addAssignFallback d s)
  | .ssse3 => some (addAssignVec 16 d s)
  | .avx2 => some (addAssignVec 32 d s)
  | .avx512 => some (addAssignVec 64 d s)

def mulAssign (p : Path) (c : Nat) (d : List Nat) : List Nat :=
  match p with
  | .portable => mulAssignFallback c d
  | .ssse3 => mulAssignVec .ssse3 c d
  | .avx2 => mulAssignVec .avx2 c d
  | .avx512 => mulAssignVec .avx512 c d

def fma (p : Path) (c : Nat) (d s : List Nat) : Option (List Nat) :=
  if d.length ≠ s.length then none else
  match p with
  | .portable => some (fmaFallback c d s)
  | .ssse3 => some (fmaVec .ssse3 c d s)
  | .avx2 => some (fmaVec .avx2 c d s)
  | .avx512 => some (fmaVec .avx512 c d s)

/-- `fused_addassign_mul_scalar_binary` with the dispatcher's fall-through: AVX-512, AVX2(+BMI1),
otherwise `to_octet_vec` and the ordinary kernels of the same path -/
def fmaBin (p : Path) (c : Nat) (d : List Nat) (o : BinVec) : Option (List Nat) :=
  if d.length ≠ o.length ∨ ¬ o.wf then none
  else if d.isEmpty then some d
  else
    match p with
    | .avx512 => if fmaBinVecAssert 64 d.length o then some (fmaBinVec 64 c d o) else none
    | .avx2 => if fmaBinVecAssert 32 d.length o then some (fmaBinVec 32 c d o) else none
    | _ => if c = 1 then addAssign p d o.toOctets else fma p c d o.toOctets

end Rq
