import Rq.Model.Codec
import Rq.Model.PiSolver
/-!
The code-shaped solver instance: the modelled five-phase solver (`PiSolver.lean`) produces the
operation vector, which is replayed on D exactly as `apply_deferred_symbol_ops` + `set_reorder`
do in the crate. Plugging it into the codec model (`Codec.lean`) gives a model of the whole
encoder / decoder pipeline with no oracle in the loop; the oracle (`Oracle.lean`) is then the
*specification* the pipeline is compared with.
-/
namespace Rq

/-- replay recorded ops on the right-hand sides and read the L logical symbols -/
def replayOps (ops : List SymOp) (d : List Sym) (l : Nat) : Option Inter :=
  match Slab.run { syms := d.toArray, mapping := none } ops with
  | none => none
  | some s => ((List.range l).mapM s.get?).map List.toArray

/-- the crate's solver on the dense (`sparse = false`) or sparse back-end -/
def piSolver (sparse : Bool) : Solver where
  full sp isis d :=
    match (if sparse then piSolveSparse sp isis else piSolveDense sp isis) with
    | none => .singular
    | some ops =>
      match replayOps ops d sp.l with
      | some c => .solved c
      | none => .oracleError
  noHdpc sp isis d :=
    match (if sparse then piSolveSparseNoHdpc sp isis else piSolveDenseNoHdpc sp isis) with
    | none => .singular
    | some ops =>
      match replayOps ops d sp.l with
      | some c => .solved c
      | none => .oracleError

end Rq
