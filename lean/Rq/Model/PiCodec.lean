import Rq.Model.Codec
import Rq.Model.Oracle
import Rq.Model.PiSolver
/-!
The code-shaped solver instance: the modelled five-phase solver (`PiSolver.lean`) produces the
operation vector, which is replayed on D exactly as `apply_deferred_symbol_ops` + `set_reorder`
do in the crate. Plugging it into the codec model (`Codec.lean`) gives a model of the whole
encoder / decoder pipeline with no oracle in the loop; the oracle (`Oracle.lean`) is then the
*specification* the pipeline is compared with.
-/
namespace Rq

/-- replay recorded ops on the right-hand sides and read the L logical symbols -/
def replayOps (ops : List SymOp) (d : List Sym) (l : Nat) : Option Inter :=
  match Slab.run { syms := d.toArray, mapping := none } ops with
  | none => none
  | some s => ((List.range l).mapM s.get?).map List.toArray

/-- the crate's solver on the dense (`sparse = false`) or sparse back-end -/
def piSolver (sparse : Bool) : Solver where
  full sp isis d :=
    match (if sparse then piSolveSparse sp isis else piSolveDense sp isis) with
    | none => .singular
    | some ops =>
      match replayOps ops d sp.l with
      | some c => .solved c
      | none => .oracleError
  noHdpc sp isis d :=
    match (if sparse then piSolveSparseNoHdpc sp isis else piSolveDenseNoHdpc sp isis) with
    | none => .singular
    | some ops =>
      match replayOps ops d sp.l with
      | some c => .solved c
      | none => .oracleError

end Rq

namespace Rq

/-- row r of a system as a symbol of `l` bytes (its coefficient vector) -/
def System.rowSyms (a : System) : List Sym :=
  let binRows := a.bin.toList.map fun cols => (List.range a.l).map fun j => if cols.contains j then 1 else 0
  binRows.take a.nLdpc ++ a.hdpc.toList.map (fun r => (List.range a.l).map fun j => r.getD j 0) ++ binRows.drop a.nLdpc

/-- the identity: L symbols of L bytes -/
def identInter (l : Nat) : Inter := Array.ofFn (n := l) fun i => (List.range l).map fun j => if j = i.val then 1 else 0

/-- **Certificate of one solver run**: replaying the recorded operations on the coefficient matrix
itself (row r as a symbol of L bytes) yields the identity — i.e. the operations realise a left
inverse of A. One replay at symbol size L; decides soundness of the run for *all* right-hand sides
and that A is determined (theorem `cert_sound`). -/
def certOk (a : System) (ops : List SymOp) : Bool :=
  ops.all (fun op => match op with | .mul _ c => decide (c < 256) | .fma _ _ c => decide (c < 256) | _ => true) &&
  match replayOps ops a.rowSyms a.l with
  | some c => c == identInter a.l
  | none => false

/-- the modelled five-phase solver with every answer certified: `solved` only with a valid
certificate; when it gives up, the verified Gauss–Jordan oracle must confirm that the system is
singular. `oracleError` = the crate's solver (as modelled) failed its certificate or gave up on a
determined system — never observed; it would be reported by the correspondence run. -/
def piSolverChecked (sparse : Bool) : Solver where
  full sp isis d :=
    match fullSystem' sp isis with
    | none => .oracleError
    | some a =>
      match (if sparse then piSolveSparse sp isis else piSolveDense sp isis) with
      | some ops =>
        if certOk a ops then
          match replayOps ops d sp.l with
          | some c => .solved c
          | none => .oracleError
        else .oracleError
      | none =>
        match solveSystem a d (symLen d) with
        | .singular => .singular
        | _ => .oracleError
  noHdpc sp isis d :=
    match binSystem' sp isis with
    | none => .oracleError
    | some a =>
      match (if sparse then piSolveSparseNoHdpc sp isis else piSolveDenseNoHdpc sp isis) with
      | some ops =>
        if certOk a ops then
          match replayOps ops d sp.l with
          | some c => .solved c
          | none => .oracleError
        else .oracleError
      | none => .singular   -- the fast path may give up freely
where
  fullSystem' (sp : SysParams) (isis : List Nat) : Option System :=
    (constraintMatrix sp isis).map fun (bin, hd) => { l := sp.l, bin, nLdpc := sp.s, hdpc := hd }
  binSystem' (sp : SysParams) (isis : List Nat) : Option System :=
    (constraintMatrixNoHdpc sp isis).map fun bin => { l := sp.l, bin, nLdpc := sp.s, hdpc := #[] }

end Rq
