import Rq.Model.Params
/-!
Model of `src/base.rs` (PayloadId, EncodingPacket, ObjectTransmissionInformation incl. `new`
and `generate_encoding_parameters`, `partition`) and `src/util.rs::int_div_ceil`.
Bytes are `Nat`s < 256; fixed-width integers are `Nat`s with the casts of the code made explicit.
-/
namespace Rq

structure PayloadId where
  sbn : Nat
  esi : Nat
deriving Repr, DecidableEq

/-- `PayloadId::new`: `none` = `assert!(esi < 2^24)` -/
def PayloadId.new? (sbn esi : Nat) : Option PayloadId :=
  if esi < 16777216 then some { sbn, esi } else none

def PayloadId.serialize (p : PayloadId) : List Nat :=
  [p.sbn, (p.esi >>> 16) % 256, (p.esi >>> 8) % 256, p.esi % 256]

def PayloadId.deserialize (b : List Nat) : Option PayloadId :=
  match b with
  | [b0, b1, b2, b3] => some { sbn := b0, esi := (b1 <<< 16) + (b2 <<< 8) + b3 }
  | _ => none

structure Packet where
  pid : PayloadId
  data : List Nat
deriving Repr, DecidableEq

def Packet.serialize (p : Packet) : List Nat := p.pid.serialize ++ p.data

/-- `EncodingPacket::deserialize`: `none` = indexing panic on fewer than 4 bytes -/
def Packet.deserialize (b : List Nat) : Option Packet :=
  match b with
  | b0 :: b1 :: b2 :: b3 :: rest =>
      (PayloadId.deserialize [b0, b1, b2, b3]).map fun pid => { pid, data := rest }
  | _ => none

structure Oti where
  f : Nat
  t : Nat
  z : Nat
  n : Nat
  al : Nat
deriving Repr, DecidableEq

def Oti.serialize (o : Oti) : List Nat :=
  [(o.f >>> 32) % 256, (o.f >>> 24) % 256, (o.f >>> 16) % 256, (o.f >>> 8) % 256, o.f % 256,
   0, (o.t >>> 8) % 256, o.t % 256, o.z, (o.n >>> 8) % 256, o.n % 256, o.al]

def Oti.deserialize (b : List Nat) : Option Oti :=
  match b with
  | [b0, b1, b2, b3, b4, _, b6, b7, b8, b9, b10, b11] =>
      some { f := (b0 <<< 32) + (b1 <<< 24) + (b2 <<< 16) + (b3 <<< 8) + b4,
             t := (b6 <<< 8) + b7, z := b8, n := (b9 <<< 8) + b10, al := b11 }
  | _ => none

/-- `int_div_ceil(num, denom) -> u32` (u64 arguments, result truncated by `as u32`);
`none` = division by zero panic. `num / denom + 1` cannot overflow u64 for denom ≥ 1. -/
def intDivCeil (num denom : Nat) : Option Nat :=
  if denom = 0 then none
  else if num % denom = 0 then some ((num / denom) % U32) else some ((num / denom + 1) % U32)

/-- exact ceiling on Nat (`u64::div_ceil`) -/
def ceilDiv (a b : Nat) : Nat := (a + b - 1) / b

def maxTransferLength : Nat := 942574504275

/-- `ObjectTransmissionInformation::new` as repaired (ceilings in u64). Arguments are already of
their Rust types (F: u64, T: u16, Z: u8, N: u16, Al: u8). `none` = an assert fails (or `% 0`). -/
def otiNew (f t z n al : Nat) : Option Oti :=
  if ¬ (f ≤ maxTransferLength) then none
  else if al = 0 then none
  else if t % al ≠ 0 then none
  else if t ≠ 0 ∧ z ≠ 0 ∧ ¬ (ceilDiv (ceilDiv f t) z ≤ maxK) then none
  else some { f, t, z, n, al }

/-- the constructor *before* the repair: both ceilings through `int_div_ceil` (u32 truncation) -/
def otiNewOld (f t z n al : Nat) : Option Oti :=
  if ¬ (f ≤ maxTransferLength) then none
  else if al = 0 then none
  else if t % al ≠ 0 then none
  else if t ≠ 0 ∧ z ≠ 0 then
    match intDivCeil f t with
    | none => none
    | some kt =>
      match intDivCeil kt z with
      | none => none
      | some sr => if sr ≤ maxK then some { f, t, z, n, al } else none
  else some { f, t, z, n, al }

/-- `partition(i, j)` on u32: (IL, IS, JL, JS); `none` = division by zero -/
def partition (i j : Nat) : Option (Nat × Nat × Nat × Nat) :=
  match intDivCeil i j with
  | none => none
  | some il =>
    let is := i / j
    let jl := i - is * j
    some (il, is, jl, j - jl)

/-- `KL(n)` of `generate_encoding_parameters` as repaired: largest K' with
K' ≤ WS / (Al · ceil(T / (Al·n))) (u64 comparison); `none` = no row fits. -/
def klOf (t al ws n : Nat) : Option Nat :=
  match intDivCeil t (al * n) with
  | none => none
  | some x =>
    if al * x = 0 then none else
    let lim := ws / (al * x)
    ((List.range 477).reverse.find? (fun i => decide (tget t2KA i ≤ lim))).map (tget t2KA)

/-- the `for i in 1..=n_max` search for N -/
def findN (t al ws kt z : Nat) (nmax : Nat) : Nat → Nat → Option Nat
  | 0, cur => some cur
  | fuel + 1, _cur =>
    let i := nmax - fuel
    match klOf t al ws i with
    | some k =>
      match intDivCeil kt z with
      | none => none
      | some c => if c ≤ k then some i else findN t al ws kt z nmax fuel i
    | none => findN t al ws kt z nmax fuel i

/-- `generate_encoding_parameters(F, P, WS)` as repaired: F, WS u64; P u16.
Returns the OTI *as stored* (Z narrowed by `as u8`, N by `as u16`). -/
def genParams (f pk ws : Nat) : Option Oti :=
  let al := if pk ≥ 64 then 8 else 1
  let ss := al
  if pk < al then none else
  let t := pk - pk % al
  match intDivCeil f t with
  | none => none
  | some kt =>
    let nmax := t / (ss * al)
    match klOf t al ws nmax with
    | none => none
    | some klmax =>
      match intDivCeil kt klmax with
      | none => none
      | some z =>
        match findN t al ws kt z nmax nmax 1 with
        | none => none
        | some n => some { f, t, z := z % 256, n := n % 65536, al }

end Rq
