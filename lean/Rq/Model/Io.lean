/-! Parsing / printing helpers for the line-protocol driver (I/O glue, not covered by theorems). -/
namespace Rq.Io

def hexDigit (c : Char) : Nat :=
  if '0' ≤ c ∧ c ≤ '9' then c.toNat - '0'.toNat
  else if 'a' ≤ c ∧ c ≤ 'f' then c.toNat - 'a'.toNat + 10
  else 0

def unhexList (s : String) : List Nat :=
  if s == "-" then [] else
  let rec go : List Char → List Nat
    | a :: b :: rest => (hexDigit a * 16 + hexDigit b) :: go rest
    | _ => []
  go s.toList

def hexChars : Array Char := "0123456789abcdef".toList.toArray

def hexList (b : List Nat) : String :=
  if b.isEmpty then "-" else
  String.ofList (b.foldr (fun x acc => hexChars[(x / 16) % 16]! :: hexChars[x % 16]! :: acc) [])

def unhexBA (s : String) : ByteArray :=
  if s == "-" then ByteArray.empty else
  let cs := s.toList.toArray
  Id.run do
    let mut out := ByteArray.emptyWithCapacity (cs.size / 2)
    for i in [0:cs.size / 2] do
      out := out.push (UInt8.ofNat (hexDigit cs[2*i]! * 16 + hexDigit cs[2*i+1]!))
    return out

def hexBA (b : ByteArray) : String :=
  if b.size == 0 then "-" else
  Id.run do
    let mut cs : Array Char := Array.mkEmpty (b.size * 2)
    for x in b.data do
      cs := cs.push hexChars[(x.toNat / 16)]!
      cs := cs.push hexChars[(x.toNat % 16)]!
    return String.ofList cs.toList

def natList (s : String) : List Nat :=
  if s == "-" then [] else (s.splitOn ",").map String.toNat!

def showList (l : List Nat) : String :=
  if l.isEmpty then "-" else ",".intercalate (l.map toString)

def nat (s : String) : Nat := s.toNat!

/-- FNV-1a 64 over bytes -/
def fnv (b : ByteArray) : Nat := Id.run do
  let mut h : UInt64 := 0xcbf29ce484222325
  for x in b.data do
    h := (h ^^^ x.toUInt64) * 0x100000001b3
  return h.toNat

end Rq.Io
