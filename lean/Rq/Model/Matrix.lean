import Rq.Model.GF256
import Rq.Model.Params
/-!
Model of `src/constraint_matrix.rs`: the binary part (LDPC rows, then one G_ENC row per
received internal symbol id) with the `set` (not xor) semantics of the code, and the HDPC rows by
the right-to-left recursion of `generate_hdpc_rows`.
-/
namespace Rq

/-- `matrix.set(r, c, 1)` on rows kept as column lists: setting a set cell changes nothing -/
def setCell (rows : Array (List Nat)) (r c : Nat) : Array (List Nat) :=
  if r < rows.size then
    let row := rows.getD r []
    if row.contains c then rows else rows.setIfInBounds r (c :: row)
  else rows

/-- G_LDPC,1 + I_S + G_LDPC,2 exactly in the order of the code; `none` = an index assert / underflow -/
def ldpcRows (sp : SysParams) : Option (Array (List Nat)) :=
  if sp.s = 0 ∨ sp.p = 0 ∨ sp.w < sp.s then none else
  let b := sp.w - sp.s
  let rows0 : Array (List Nat) := Array.replicate sp.s []
  let rows1 := (List.range b).foldl (fun rows i =>
    let a := 1 + i / sp.s
    let b0 := i % sp.s
    let b1 := (b0 + a) % sp.s
    let b2 := (b1 + a) % sp.s
    setCell (setCell (setCell rows b0 i) b1 i) b2 i) rows0
  let rows2 := (List.range sp.s).foldl (fun rows i => setCell rows i (i + b)) rows1
  let rows3 := (List.range sp.s).foldl (fun rows i =>
    setCell (setCell rows i (i % sp.p + sp.w)) i ((i + 1) % sp.p + sp.w)) rows2
  some rows3

/-- one G_ENC row: the columns `enc_indices` visits (set semantics) -/
def encRow (sp : SysParams) (isi : Nat) : Option (List Nat) :=
  (encIndicesOf sp isi).map fun l => l.foldl (fun acc c => if acc.contains c then acc else c :: acc) []

def encRows (sp : SysParams) (isis : List Nat) : Option (List (List Nat)) :=
  isis.mapM (encRow sp)

/-- one step of the HDPC recursion: column j from column j+1 (H entries) -/
def hdpcStep (h j : Nat) (next : List Nat) : Option (List Nat) :=
  match rand (j + 1) 6 h, rand (j + 1) 7 (h - 1) with
  | some r6, some r7 =>
    let i1 := r6
    let i2 := (r6 + r7 + 1) % h
    let col := next.map (gmul 2)
    let col := col.set i1 (col.getD i1 0 ^^^ 1)
    let col := col.set i2 (col.getD i2 0 ^^^ 1)
    some col
  | _, _ => none

/-- columns n-1, n-2, …, 0 of G_HDPC (n = K'+S), last column alpha^i; returned in column order -/
def hdpcCols (h n : Nat) : Option (Array (List Nat)) :=
  if n = 0 then none else
  match (List.range h).mapM galpha with
  | none => none
  | some last =>
    let rec go (j : Nat) (next : List Nat) (acc : List (List Nat)) : Option (List (List Nat)) :=
      match j with
      | 0 => some acc
      | j + 1 =>
        match hdpcStep h j next with
        | none => none
        | some col => go j col (col :: acc)
    (go (n - 1) last [last]).map List.toArray

/-- HDPC rows (H × L): G_HDPC followed by I_H -/
def hdpcRows (sp : SysParams) : Option (Array (Array Nat)) :=
  match hdpcCols sp.h (sp.kp + sp.s) with
  | none => none
  | some cols =>
    some <| Array.ofFn (n := sp.h) fun i =>
      Array.ofFn (n := sp.l) fun j =>
        if j.val < sp.kp + sp.s then (cols.getD j.val []).getD i.val 0
        else if j.val = sp.kp + sp.s + i.val then 1 else 0

/-- `generate_constraint_matrix(K, isis)`: binary rows (S LDPC rows then the G_ENC rows; the H HDPC
rows logically sit between them) and the HDPC rows. `none` = the size assert or a panic inside. -/
def constraintMatrix (sp : SysParams) (isis : List Nat) : Option (Array (List Nat) × Array (Array Nat)) :=
  if sp.s + sp.h + isis.length < sp.l then none else
  match ldpcRows sp, encRows sp isis, hdpcRows sp with
  | some l, some e, some h => some (l ++ e.toArray, h)
  | _, _, _ => none

/-- `generate_constraint_matrix_no_hdpc` -/
def constraintMatrixNoHdpc (sp : SysParams) (isis : List Nat) : Option (Array (List Nat)) :=
  if sp.s + isis.length < sp.l then none else
  match ldpcRows sp, encRows sp isis with
  | some l, some e => some (l ++ e.toArray)
  | _, _ => none

end Rq
