import Rq.Model.BitMat
/-!
E4 (continued): code-shaped model of `SparseBinaryMatrix` (`src/sparse_matrix.rs`) with
`SparseBinaryVec` rows (sorted key lists, ones only), the right-aligned dense tail, the logical ↔
physical row and column maps, the `ImmutableListMap` column index (which becomes a stale superset
after eliminations) and `column_index_disabled`. `none` = a panic: an explicit `assert!`,
`unimplemented!`, or an index out of bounds.
-/
namespace Rq

structure Sparse where
  h : Nat
  w : Nat
  rows : Array (List Nat)            -- sparse_elements[physical row]: sorted physical columns holding a one
  dense : Array Nat                  -- dense_elements (u64 words), rows right-aligned
  index : Option (Array (List Nat))  -- sparse_columnar_values: physical column ↦ physical rows
  l2pR : Array Nat
  p2lR : Array Nat
  l2pC : Array Nat
  p2lC : Array Nat
  indexDisabled : Bool
  nd : Nat                           -- num_dense_columns
deriving Repr, DecidableEq

namespace Sparse

def rww (m : Sparse) : Nat := (m.nd + 63) / 64
def leftPad (m : Sparse) : Nat := (64 - m.nd % 64) % 64
/-- `bit_position(row, dense col)` -/
def bitPos (m : Sparse) (row col : Nat) : Nat × Nat :=
  (row * m.rww + (m.leftPad + col) / 64, (m.leftPad + col) % 64)

def new (h w hint : Nat) : Sparse :=
  { h, w, rows := Array.replicate h [],
    dense := if hint > 0 then Array.replicate (h * ((hint - 1) / 64 + 1)) 0 else #[],
    index := none,
    l2pR := Array.ofFn (n := h) fun i => i.val, p2lR := Array.ofFn (n := h) fun i => i.val,
    l2pC := Array.ofFn (n := w) fun i => i.val, p2lC := Array.ofFn (n := w) fun i => i.val,
    indexDisabled := true, nd := hint }

/-- sorted insert / remove on a `SparseBinaryVec` -/
def vecInsert (l : List Nat) (k : Nat) : List Nat :=
  match l with
  | [] => [k]
  | x :: rest => if k < x then k :: x :: rest else if k = x then l else x :: vecInsert rest k
def vecRemove (l : List Nat) (k : Nat) : List Nat := l.filter (· != k)

/-- `SparseBinaryVec::add_assign`: symmetric difference of sorted lists; also reports whether a key
of `other` was new to `self` -/
def vecAdd (a b : List Nat) : List Nat × Bool :=
  match b with
  | [k] => if a.contains k then (vecRemove a k, false) else (vecInsert a k, true)
  | _ =>
    let added := b.any fun k => !a.contains k
    ((a.filter fun k => !b.contains k) ++ (b.filter fun k => !a.contains k) |>.mergeSort (· ≤ ·), added)

def set (m : Sparse) (i j : Nat) (v : Bool) : Option Sparse :=
  match m.l2pR[i]?, m.l2pC[j]? with
  | some pi, some pj =>
    if m.w - j ≤ m.nd then
      if j < m.w - m.nd then none else
      let (wd, b) := m.bitPos pi (j - (m.w - m.nd))
      if wd < m.dense.size then
        some { m with dense := m.dense.setIfInBounds wd (if v then setBit64 (m.dense.getD wd 0) b else clearBit64 (m.dense.getD wd 0) b) }
      else none
    else
      if pi < m.rows.size ∧ m.indexDisabled then
        some { m with rows := m.rows.setIfInBounds pi (if v then vecInsert (m.rows.getD pi []) pj else vecRemove (m.rows.getD pi []) pj) }
      else none
  | _, _ => none

def get (m : Sparse) (i j : Nat) : Option Bool :=
  match m.l2pR[i]?, m.l2pC[j]? with
  | some pi, some pj =>
    if m.w - j ≤ m.nd then
      if j < m.w - m.nd then none else
      let (wd, b) := m.bitPos pi (j - (m.w - m.nd))
      if wd < m.dense.size then some (testBit64 (m.dense.getD wd 0) b) else none
    else
      if pi < m.rows.size then some ((m.rows.getD pi []).contains pj) else none
  | _, _ => none

/-- logical columns holding a one in the sparse part of logical row `row`, within [a, b) -/
def sparseOnes (m : Sparse) (row a b : Nat) : Option (List Nat) :=
  match m.l2pR[row]? with
  | some pr =>
    if pr < m.rows.size then
      ((m.rows.getD pr []).mapM fun pc => m.p2lC[pc]?).map fun cols => cols.filter fun c => a ≤ c ∧ c < b
    else none
  | none => none

def countOnes (m : Sparse) (row a b : Nat) : Option Nat :=
  if b > m.w - m.nd then none else (m.sparseOnes row a b).map List.length

def rowIter (m : Sparse) (row a b : Nat) : Option (List Nat) :=
  if b > m.w - m.nd then none else m.sparseOnes row a b

def subRow (m : Sparse) (row start : Nat) : Option BinVec :=
  if start ≠ m.w - m.nd then none else
  match m.l2pR[row]? with
  | some pr =>
    let first := pr * m.rww
    if first + m.rww ≤ m.dense.size then
      some { words := (List.range m.rww).map fun k => m.dense.getD (first + k) 0, length := m.nd }
    else none
  | none => none

/-- `query_non_zero_columns`: scans the row's dense words (the first word is read unconditionally) -/
def nonZeroCols (m : Sparse) (row start : Nat) : Option (List Nat) :=
  if start ≠ m.w - m.nd then none else
  match m.l2pR[row]? with
  | some pr =>
    let first := pr * m.rww
    if first < m.dense.size ∧ first + m.rww ≤ m.dense.size then
      some ((List.range (m.rww * 64)).filterMap fun q =>
        if testBit64 (m.dense.getD (first + q / 64) 0) (q % 64) then some (start + q - m.leftPad) else none)
    else none
  | none => none

def onesInCol (m : Sparse) (col a b : Nat) : Option (List Nat) :=
  if m.indexDisabled then none else
  match m.index, m.l2pC[col]? with
  | some idx, some pc =>
    if pc < idx.size then
      ((idx.getD pc []).mapM fun pr => m.p2lR[pr]?).map fun rows => rows.filter fun r => a ≤ r ∧ r < b
    else none
  | _, _ => none

def swapRows (m : Sparse) (i j : Nat) : Option Sparse :=
  match m.l2pR[i]?, m.l2pR[j]? with
  | some pi, some pj =>
    if pi < m.p2lR.size ∧ pj < m.p2lR.size then
      some { m with l2pR := (m.l2pR.setIfInBounds i pj).setIfInBounds j pi,
                    p2lR := (m.p2lR.setIfInBounds pi (m.p2lR.getD pj 0)).setIfInBounds pj (m.p2lR.getD pi 0) }
    else none
  | _, _ => none

def swapCols (m : Sparse) (i j : Nat) : Option Sparse :=
  if j ≥ m.w - m.nd then none else
  match m.l2pC[i]?, m.l2pC[j]? with
  | some pi, some pj =>
    if pi < m.p2lC.size ∧ pj < m.p2lC.size then
      some { m with l2pC := (m.l2pC.setIfInBounds i pj).setIfInBounds j pi,
                    p2lC := (m.p2lC.setIfInBounds pi (m.p2lC.getD pj 0)).setIfInBounds pj (m.p2lC.getD pi 0) }
    else none
  | _, _ => none

/-- `enable_column_access_acceleration`: the builder has one slot per *row* (num_keys = height),
keyed by physical column: a column ≥ height, or an empty sparse part, panics -/
def enableIndex (m : Sparse) : Option Sparse :=
  let entries := (List.range m.rows.size).flatMap fun pr => (m.rows.getD pr []).map fun pc => (pc, pr)
  if entries.isEmpty ∨ entries.any (fun (pc, _) => pc ≥ m.h) then none else
  some { m with indexDisabled := false,
                index := some (Array.ofFn (n := m.h) fun pc => (entries.filter fun e => e.1 = pc.val).map (·.2)) }

def disableIndex (m : Sparse) : Sparse := { m with indexDisabled := true, index := none }

/-- `hint_column_dense_and_frozen(i)` as repaired: grow the dense tail by one column; when that
needs a new word per row, re-space the words; then move column i's ones into the new bit -/
def freeze (m : Sparse) (i : Nat) : Option Sparse :=
  if m.w - m.nd - 1 ≠ i ∨ m.w ≤ m.nd ∨ m.indexDisabled then none else
  let nd' := m.nd + 1
  let m1 : Sparse := { m with nd := nd' }
  let lastWord := (m1.bitPos (m.h - 1) (nd' - 1)).1
  let dense' : Array Nat :=
    if lastWord ≥ m.dense.size then
      -- every row gets one more word in front (right-aligned rows): old words keep their order
      let oldR := m.rww
      Array.ofFn (n := m.dense.size + m.h) fun q =>
        let r := q.val / m1.rww
        let k := q.val % m1.rww
        if k = 0 then 0 else m.dense.getD (r * oldR + (k - 1)) 0
    else m.dense
  match m.index, m.l2pC[i]? with
  | some idx, some pc =>
    if pc < idx.size then
      let m2 : Sparse := { m1 with dense := dense' }
      (idx.getD pc []).foldlM (fun (acc : Sparse) pr =>
        if pr < acc.rows.size then
          if (acc.rows.getD pr []).contains pc then
            let (wd, b) := acc.bitPos pr 0
            if wd < acc.dense.size then
              some { acc with rows := acc.rows.setIfInBounds pr (vecRemove (acc.rows.getD pr []) pc),
                              dense := acc.dense.setIfInBounds wd (setBit64 (acc.dense.getD wd 0) b) }
            else none
          else some acc
        else none) m2
    else none
  | _, _ => none

def addAssign (m : Sparse) (dest src start : Nat) : Option Sparse :=
  if dest = src ∨ ¬ (start = 0 ∨ start = m.w - m.nd) then none else
  match m.l2pR[dest]?, m.l2pR[src]? with
  | some pd, some ps =>
    let m1? : Option Sparse :=
      if m.nd > 0 then
        let d := pd * m.rww
        let s := ps * m.rww
        if d + m.rww ≤ m.dense.size ∧ s + m.rww ≤ m.dense.size then
          some { m with dense := (List.range m.rww).foldl (fun el k => el.setIfInBounds (d + k) (el.getD (d + k) 0 ^^^ el.getD (s + k) 0)) m.dense }
        else none
      else some m
    match m1? with
    | none => none
    | some m1 =>
      if start = 0 then
        if pd < m1.rows.size ∧ ps < m1.rows.size then
          let srcRow := m1.rows.getD ps []
          if ¬ (m1.indexDisabled ∨ srcRow.length = 1) then none else
          let (r, added) := vecAdd (m1.rows.getD pd []) srcRow
          if ¬ (m1.indexDisabled ∨ ¬ added) then none else
          some { m1 with rows := m1.rows.setIfInBounds pd r }
        else none
      else some m1
  | _, _ => none

def resize (m : Sparse) (nh nw : Nat) : Option Sparse :=
  if nh > m.h ∨ nw > m.w then none else
  let remove := m.w - nw
  if ¬ (remove = 0 ∨ remove ≥ m.nd) ∨ ¬ m.indexDisabled then none else
  -- rows in logical order
  match (List.range nh).mapM (fun lr => (m.l2pR[lr]?).bind fun pr => m.rows[pr]?) with
  | none => none
  | some newRows =>
    let keepDense := remove = 0 ∧ m.nd > 0
    let dense'? : Option (Array Nat) :=
      if keepDense then
        ((List.range nh).mapM fun lr => (m.l2pR[lr]?).bind fun pr =>
          if pr * m.rww + m.rww ≤ m.dense.size then some ((List.range m.rww).map fun k => m.dense.getD (pr * m.rww + k) 0) else none).map
          fun ls => ls.flatten.toArray
      else some #[]
    match dense'? with
    | none => none
    | some dense' =>
      let rows' := if remove > 0 then newRows.map fun r => r.filter fun pc => m.p2lC.getD pc 0 < nw else newRows
      some { m with h := nh, w := nw, rows := rows'.toArray, dense := dense',
                    nd := if keepDense then m.nd else (if remove = 0 then m.nd else 0),
                    l2pR := Array.ofFn (n := nh) fun i => i.val, p2lR := Array.ofFn (n := nh) fun i => i.val }

end Sparse
end Rq
