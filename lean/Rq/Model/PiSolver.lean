import Rq.Model.Plan
import Rq.Model.BitMat
import Rq.Model.Sparse
import Rq.Model.IpnSort
/-!
Model of `src/pi_solver.rs` (`IntermediateSymbolDecoder`: the five-phase inactivation decoding
solver with its row-selection statistics, connected-component graph, deferred symbol operations
and final reorder), op for op, in the shape of the RELEASE build (`#[cfg(debug_assertions)]`
blocks — the X matrix and the `*_verify` functions — are left out), together with what it uses:

* `src/arraymap.rs`  : `U16ArrayMap`, `U32VecMap`, `ImmutableListMap(Builder)`, `UndirectedGraph`
  (their `sort_unstable_by_key` is `IpnSort.sortUnstableBy`, a model of Rust's unstable sort)
* `src/graph.rs`     : `ConnectedComponentGraph`
* `src/octet_matrix.rs` : `DenseOctetMatrix`
* `src/matrix.rs`    : the `BinaryMatrix` trait (class `BinaryMatrix`) and `DenseBinaryMatrix`
  (as the bit array it stands for: rows of `Bool`)
* `src/sparse_matrix.rs` : `SparseBinaryMatrix` = the code-shaped `Rq.Sparse` of Sparse.lean, with
  the column index in the order the real `enable_column_access_acceleration` produces

One Lean function per Rust function, same names in camelCase; the solver is generic in the matrix
back-end like the Rust (`T: BinaryMatrix`). The symbols `D` do not influence the recorded
operations, so the model carries no symbols: only `deferred_D_ops` and the final `Reorder`.
`none` stands for `execute` returning `(None, None)` — or for one of the panics the model checks
(`unwrap` of an empty selection, `unreachable!`, `assert_eq!(found, 2)`, division by zero).

Entry points: `Rq.piSolveDense`, `Rq.piSolveSparse` (`fused_inverse_mul_symbols`),
`Rq.piSolveDenseNoHdpc`, `Rq.piSolveSparseNoHdpc` (`fused_inverse_mul_symbols_no_hdpc`).
-/
namespace Rq
namespace Pi

/-! ## `src/arraymap.rs` -/

/-- `U16ArrayMap` -/
structure U16ArrayMap where
  offset : Nat
  elements : Array Nat
deriving Inhabited, Repr

namespace U16ArrayMap

def new (startKey endKey : Nat) : U16ArrayMap :=
  { offset := startKey, elements := Array.replicate (endKey - startKey) 0 }

/-- `swap`: the keys are used as raw indices (no offset), as in the code -/
def swap (m : U16ArrayMap) (key otherKey : Nat) : U16ArrayMap :=
  { m with elements := m.elements.swapIfInBounds key otherKey }

def keys (m : U16ArrayMap) : List Nat := (List.range m.elements.size).map (· + m.offset)

def insert (m : U16ArrayMap) (key value : Nat) : U16ArrayMap :=
  { m with elements := m.elements.setIfInBounds (key - m.offset) value }

def get (m : U16ArrayMap) (key : Nat) : Nat := m.elements.getD (key - m.offset) 0

/-- `-= 1` on a u16 (release build: wraps) -/
def decrement (m : U16ArrayMap) (key : Nat) : U16ArrayMap :=
  { m with elements := m.elements.modify (key - m.offset) fun x => (x + 65535) % 65536 }

/-- `+= 1` on a u16 (release build: wraps) -/
def increment (m : U16ArrayMap) (key : Nat) : U16ArrayMap :=
  { m with elements := m.elements.modify (key - m.offset) fun x => (x + 1) % 65536 }

end U16ArrayMap

/-- `U32VecMap` -/
structure U32VecMap where
  offset : Nat
  elements : Array Nat
deriving Inhabited, Repr

namespace U32VecMap

def new (startKey : Nat) : U32VecMap := { offset := startKey, elements := Array.replicate 1 0 }

def withCapacity (startKey endKey : Nat) : U32VecMap :=
  { offset := startKey, elements := Array.replicate (endKey - startKey) 0 }

def growIfNecessary (m : U32VecMap) (index : Nat) : U32VecMap :=
  if index ≥ m.elements.size then
    { m with elements := m.elements ++ Array.replicate (index - m.elements.size + 1) 0 }
  else m

def insert (m : U32VecMap) (key value : Nat) : U32VecMap :=
  let m := m.growIfNecessary (key - m.offset)
  { m with elements := m.elements.setIfInBounds (key - m.offset) value }

def get (m : U32VecMap) (key : Nat) : Nat :=
  if key - m.offset ≥ m.elements.size then 0 else m.elements.getD (key - m.offset) 0

def decrement (m : U32VecMap) (key : Nat) : U32VecMap :=
  let m := m.growIfNecessary (key - m.offset)
  { m with elements := m.elements.modify (key - m.offset) fun x => (x + 4294967295) % 4294967296 }

def increment (m : U32VecMap) (key : Nat) : U32VecMap :=
  let m := m.growIfNecessary (key - m.offset)
  { m with elements := m.elements.modify (key - m.offset) fun x => (x + 1) % 4294967296 }

end U32VecMap

/-- `ImmutableListMap` (a `Map<u16, Vec<u32>>`) -/
structure ImmutableListMap where
  /-- start of the key's values (keys without entries: the start of the next key) -/
  offsets : Array Nat
  values : Array Nat
deriving Inhabited, Repr

namespace ImmutableListMap

def get (m : ImmutableListMap) (i : Nat) : Array Nat :=
  let start := m.offsets.getD i 0
  let stop := if i == m.offsets.size - 1 then m.values.size else m.offsets.getD (i + 1) 0
  m.values.extract start stop

end ImmutableListMap

/-- `ImmutableListMapBuilder` -/
structure ImmutableListMapBuilder where
  entries : Array (Nat × Nat)
  numKeys : Nat
deriving Inhabited, Repr

namespace ImmutableListMapBuilder

def new (numKeys : Nat) : ImmutableListMapBuilder := { entries := #[], numKeys }

def add (b : ImmutableListMapBuilder) (key value : Nat) : ImmutableListMapBuilder :=
  { b with entries := b.entries.push (key, value) }

/-- `build`: `entries.sort_unstable_by_key(|x| x.0)` — the order of the values of one key is the
one Rust's unstable sort (ipnsort) leaves them in, and `get_ones_in_column` hands that order on to
the solver. `none` = `assert!(!entries.is_empty())`. -/
def build (b : ImmutableListMapBuilder) : Option ImmutableListMap := do
  let entries := IpnSort.sortUnstableBy (fun x y => x.1 < y.1) b.entries
  if entries.isEmpty then none
  let unset := 4294967295
  let mut offsets := Array.replicate b.numKeys unset
  let mut lastKey := (entries.getD 0 (0, 0)).1
  offsets := offsets.setIfInBounds lastKey 0
  let mut values : Array Nat := #[]
  for index in [0:entries.size] do
    let (key, value) := entries.getD index (0, 0)
    if lastKey != key then
      lastKey := key
      offsets := offsets.setIfInBounds key index
    values := values.push value
  for k in [0:offsets.size] do
    let i := offsets.size - 1 - k
    if offsets.getD i 0 == unset then
      if i == offsets.size - 1 then
        offsets := offsets.setIfInBounds i entries.size
      else
        offsets := offsets.setIfInBounds i (offsets.getD (i + 1) 0)
  return { offsets, values }

end ImmutableListMapBuilder

/-- `UndirectedGraph` -/
structure UndirectedGraph where
  edges : Array (Nat × Nat)
  /-- mapping from node id to starting index in the edges array -/
  nodeEdgeStartingIndex : U32VecMap
deriving Inhabited, Repr

namespace UndirectedGraph

def withCapacity (startNode endNode _edges : Nat) : UndirectedGraph :=
  { edges := #[], nodeEdgeStartingIndex := U32VecMap.withCapacity startNode endNode }

def addEdge (g : UndirectedGraph) (node1 node2 : Nat) : UndirectedGraph :=
  { g with edges := (g.edges.push (node1, node2)).push (node2, node1) }

/-- `build`: `edges.sort_unstable_by_key(|x| x.0)` (Rust's unstable sort: the order among the
edges of one node is the one ipnsort leaves them in; the only consumer,
`rebuild_connected_components`, does not depend on it: every node gets the component id created
for the smallest node of its component), then the starting index of every node. -/
def build (g : UndirectedGraph) : UndirectedGraph := Id.run do
  let edges := IpnSort.sortUnstableBy (fun a b => a.1 < b.1) g.edges
  let mut g := { g with edges := edges }
  if edges.isEmpty then return g
  let mut lastNode := (edges.getD 0 (0, 0)).1
  g := { g with nodeEdgeStartingIndex := g.nodeEdgeStartingIndex.insert lastNode 0 }
  for index in [0:edges.size] do
    let node := (edges.getD index (0, 0)).1
    if lastNode != node then
      lastNode := node
      g := { g with nodeEdgeStartingIndex := g.nodeEdgeStartingIndex.insert lastNode index }
  return g

/-- `get_adjacent_nodes`: the edges from the node's starting index on, as long as they start at it -/
def getAdjacentNodes (g : UndirectedGraph) (node : Nat) : Array Nat := Id.run do
  let firstCandidate := g.nodeEdgeStartingIndex.get node
  let mut out : Array Nat := #[]
  for index in [firstCandidate:g.edges.size] do
    let (n, adjacent) := g.edges.getD index (0, 0)
    if n != node then break
    out := out.push adjacent
  return out

def nodes (g : UndirectedGraph) : Array Nat := Id.run do
  let mut result : Array Nat := #[]
  for (node, _) in g.edges do
    if result.isEmpty || result.getD (result.size - 1) 0 != node then
      result := result.push node
  return result

end UndirectedGraph

/-! ## `src/graph.rs` -/

def NO_CONNECTED_COMPONENT : Nat := 0

/-- `ConnectedComponentGraph` -/
structure ConnectedComponentGraph where
  /-- mapping from nodes to their connected component id -/
  nodeConnectedComponent : U16ArrayMap
  /-- mapping from original connected component id to the one they've been merged with -/
  mergedConnectedComponents : U16ArrayMap
  /-- size of each connected component in the graph -/
  connectedComponentSize : U16ArrayMap
  numConnectedComponents : Nat
deriving Inhabited, Repr

namespace ConnectedComponentGraph

def new (maxNodes : Nat) : ConnectedComponentGraph := Id.run do
  let first := NO_CONNECTED_COMPONENT + 1
  let mut merged := U16ArrayMap.new first (first + maxNodes)
  for i in merged.keys do
    merged := merged.insert i i
  return { nodeConnectedComponent := U16ArrayMap.new 0 maxNodes
           mergedConnectedComponents := merged
           connectedComponentSize := U16ArrayMap.new first (first + maxNodes)
           numConnectedComponents := 0 }

def createConnectedComponent (g : ConnectedComponentGraph) : ConnectedComponentGraph × Nat :=
  let n := g.numConnectedComponents + 1
  ({ g with numConnectedComponents := n }, NO_CONNECTED_COMPONENT + n)

/-- `canonical_component_id`: follow the merge chain (ids only ever merge into lower ids, so the
table size bounds the chain) -/
def canonicalComponentId (g : ConnectedComponentGraph) (id : Nat) : Nat :=
  if id == NO_CONNECTED_COMPONENT then id
  else go (g.mergedConnectedComponents.elements.size + 1) id
where
  go : Nat → Nat → Nat
    | 0, id => id
    | fuel + 1, id =>
      let next := g.mergedConnectedComponents.get id
      if next != id then go fuel next else id

def addNode (g : ConnectedComponentGraph) (node connectedComponent : Nat) : ConnectedComponentGraph :=
  let canonical := g.canonicalComponentId connectedComponent
  { g with nodeConnectedComponent := g.nodeConnectedComponent.insert node canonical
           connectedComponentSize := g.connectedComponentSize.increment canonical }

def swap (g : ConnectedComponentGraph) (node1 node2 : Nat) : ConnectedComponentGraph :=
  { g with nodeConnectedComponent := g.nodeConnectedComponent.swap node1 node2 }

def contains (g : ConnectedComponentGraph) (node : Nat) : Bool :=
  g.nodeConnectedComponent.get node != NO_CONNECTED_COMPONENT

def removeNode (g : ConnectedComponentGraph) (node : Nat) : ConnectedComponentGraph :=
  let connectedComponent := g.canonicalComponentId (g.nodeConnectedComponent.get node)
  if connectedComponent == NO_CONNECTED_COMPONENT then g
  else
    { g with connectedComponentSize := g.connectedComponentSize.decrement connectedComponent
             nodeConnectedComponent := g.nodeConnectedComponent.insert node NO_CONNECTED_COMPONENT }

/-- `get_node_in_largest_connected_component`: strict `>` keeps the first largest component; then
the first node of [start_node, end_node) lying in it. `none` = the `assert_ne!` / `unwrap`. -/
def getNodeInLargestConnectedComponent (g : ConnectedComponentGraph) (startNode endNode : Nat) :
    Option Nat := do
  let mut maxSize := 0
  let mut largest := NO_CONNECTED_COMPONENT
  for i in [1:g.numConnectedComponents + 1] do
    let size := g.connectedComponentSize.get i
    if size > maxSize then
      maxSize := size
      largest := i
  if largest == NO_CONNECTED_COMPONENT then none
  (List.range (endNode - startNode)).map (· + startNode) |>.find? fun node =>
    g.canonicalComponentId (g.nodeConnectedComponent.get node) == largest

/-- `add_edge`: implicitly creates any missing nodes -/
def addEdge (g : ConnectedComponentGraph) (node1 node2 : Nat) : ConnectedComponentGraph :=
  let cc1 := g.canonicalComponentId (g.nodeConnectedComponent.get node1)
  let cc2 := g.canonicalComponentId (g.nodeConnectedComponent.get node2)
  if cc1 == NO_CONNECTED_COMPONENT && cc2 == NO_CONNECTED_COMPONENT then
    -- create a new connected component
    let (g, id) := g.createConnectedComponent
    { g with nodeConnectedComponent := (g.nodeConnectedComponent.insert node1 id).insert node2 id
             connectedComponentSize := g.connectedComponentSize.insert id 2 }
  else if cc1 == NO_CONNECTED_COMPONENT then
    { g with connectedComponentSize := g.connectedComponentSize.increment cc2
             nodeConnectedComponent := g.nodeConnectedComponent.insert node1 cc2 }
  else if cc2 == NO_CONNECTED_COMPONENT then
    { g with connectedComponentSize := g.connectedComponentSize.increment cc1
             nodeConnectedComponent := g.nodeConnectedComponent.insert node2 cc1 }
  else if cc1 != cc2 then
    -- merge into the lowest to keep chains short
    let mergeTo := min cc1 cc2
    let mergeFrom := max cc1 cc2
    let toSize := g.connectedComponentSize.get mergeTo
    let fromSize := g.connectedComponentSize.get mergeFrom
    { g with connectedComponentSize :=
               (g.connectedComponentSize.insert mergeFrom 0).insert mergeTo ((toSize + fromSize) % 65536)
             mergedConnectedComponents := g.mergedConnectedComponents.insert mergeFrom mergeTo }
  else g

def reset (g : ConnectedComponentGraph) : ConnectedComponentGraph := Id.run do
  let mut size := g.connectedComponentSize
  let mut merged := g.mergedConnectedComponents
  for i in [1:g.numConnectedComponents + 1] do
    size := size.insert i 0
    merged := merged.insert i i
  let mut ncc := g.nodeConnectedComponent
  for i in ncc.keys do
    ncc := ncc.insert i NO_CONNECTED_COMPONENT
  return { nodeConnectedComponent := ncc, mergedConnectedComponents := merged
           connectedComponentSize := size, numConnectedComponents := 0 }

end ConnectedComponentGraph

/-! ## `src/octet_matrix.rs` -/

/-- `DenseOctetMatrix` -/
structure DenseOctetMatrix where
  height : Nat
  width : Nat
  elements : Array (Array Nat)
deriving Inhabited, Repr

namespace DenseOctetMatrix

def new (height width : Nat) : DenseOctetMatrix :=
  { height, width, elements := Array.replicate height (Array.replicate width 0) }

/-- `fma_sub_row(row, start_col, scalar, other)`: `other` = the bits of a binary sub-row -/
def fmaSubRow (m : DenseOctetMatrix) (row startCol scalar : Nat) (other : Array Bool) :
    DenseOctetMatrix :=
  { m with elements := m.elements.modify row fun r => Id.run do
      let mut r := r
      for k in [0:other.size] do
        if other.getD k false then
          r := r.modify (startCol + k) fun x => x ^^^ scalar
      return r }

def set (m : DenseOctetMatrix) (i j value : Nat) : DenseOctetMatrix :=
  { m with elements := m.elements.modify i fun r => r.setIfInBounds j value }

def mulAssignRow (m : DenseOctetMatrix) (row value : Nat) : DenseOctetMatrix :=
  { m with elements := m.elements.modify row fun r => r.map fun x => gmul x value }

def get (m : DenseOctetMatrix) (i j : Nat) : Nat := (m.elements.getD i #[]).getD j 0

def swapRows (m : DenseOctetMatrix) (i j : Nat) : DenseOctetMatrix :=
  { m with elements := m.elements.swapIfInBounds i j }

def swapColumns (m : DenseOctetMatrix) (i j startRowHint : Nat) : DenseOctetMatrix :=
  { m with elements := Id.run do
      let mut el := m.elements
      for row in [startRowHint:el.size] do
        el := el.modify row fun r => r.swapIfInBounds i j
      return el }

/-- `fma_rows(dest, multiplicand, scalar)`: row dest += scalar * row multiplicand -/
def fmaRows (m : DenseOctetMatrix) (dest multiplicand scalar : Nat) : DenseOctetMatrix :=
  let src := m.elements.getD multiplicand #[]
  { m with elements := m.elements.modify dest fun r =>
      if scalar == 1 then r.mapIdx fun k x => x ^^^ src.getD k 0
      else r.mapIdx fun k x => x ^^^ gmul (src.getD k 0) scalar }

end DenseOctetMatrix

/-! ## `src/matrix.rs` -/

/-- the `BinaryMatrix` trait, as far as the solver uses it. `getRowIter` gives the columns of the
*non-zero* items of `get_row_iter(row, start_col, end_col)` in iteration order (every consumer
skips the zero items): ascending columns for the dense back-end, physical order for the sparse
one. `getSubRowAsOctets` gives the bits of columns start_col .. width. -/
class BinaryMatrix (M : Type) where
  height : M → Nat
  width : M → Nat
  countOnes : M → (row startCol endCol : Nat) → Nat
  getRowIter : M → (row startCol endCol : Nat) → Array Nat
  getOnesInColumn : M → (col startRow endRow : Nat) → Array Nat
  getSubRowAsOctets : M → (row startCol : Nat) → Array Bool
  queryNonZeroColumns : M → (row startCol : Nat) → Array Nat
  get : M → (i j : Nat) → Bool
  set : M → (i j : Nat) → Bool → M
  swapRows : M → (i j : Nat) → M
  swapColumns : M → (i j startRowHint : Nat) → M
  enableColumnAccessAcceleration : M → M
  disableColumnAccessAcceleration : M → M
  hintColumnDenseAndFrozen : M → (i : Nat) → M
  addAssignRows : M → (dest src startCol : Nat) → M
  resize : M → (newHeight newWidth : Nat) → M

/-- `DenseBinaryMatrix`, as the bit array its u64 words stand for (the word-level model is
`Rq.Dense` of BitMat.lean) -/
structure DenseBinaryMatrix where
  height : Nat
  width : Nat
  elements : Array (Array Bool)
deriving Inhabited

namespace DenseBinaryMatrix

def new (height width : Nat) : DenseBinaryMatrix :=
  { height, width, elements := Array.replicate height (Array.replicate width false) }

def get (m : DenseBinaryMatrix) (i j : Nat) : Bool := (m.elements.getD i #[]).getD j false

def set (m : DenseBinaryMatrix) (i j : Nat) (v : Bool) : DenseBinaryMatrix :=
  { m with elements := m.elements.modify i fun r => r.setIfInBounds j v }

def countOnes (m : DenseBinaryMatrix) (row startCol endCol : Nat) : Nat := Id.run do
  let r := m.elements.getD row #[]
  let mut ones := 0
  for col in [startCol:endCol] do
    if r.getD col false then ones := ones + 1
  return ones

/-- `get_row_iter`: ascending columns -/
def getRowIter (m : DenseBinaryMatrix) (row startCol endCol : Nat) : Array Nat := Id.run do
  let r := m.elements.getD row #[]
  let mut out : Array Nat := #[]
  for col in [startCol:endCol] do
    if r.getD col false then out := out.push col
  return out

/-- `get_ones_in_column`: ascending rows -/
def getOnesInColumn (m : DenseBinaryMatrix) (col startRow endRow : Nat) : Array Nat := Id.run do
  let mut out : Array Nat := #[]
  for row in [startRow:endRow] do
    if m.get row col then out := out.push row
  return out

def getSubRowAsOctets (m : DenseBinaryMatrix) (row startCol : Nat) : Array Bool :=
  (m.elements.getD row #[]).extract startCol m.width

def queryNonZeroColumns (m : DenseBinaryMatrix) (row startCol : Nat) : Array Nat :=
  m.getRowIter row startCol m.width

def swapRows (m : DenseBinaryMatrix) (i j : Nat) : DenseBinaryMatrix :=
  { m with elements := m.elements.swapIfInBounds i j }

def swapColumns (m : DenseBinaryMatrix) (i j startRowHint : Nat) : DenseBinaryMatrix :=
  { m with elements := Id.run do
      let mut el := m.elements
      for row in [startRowHint:m.height] do
        el := el.modify row fun r => r.swapIfInBounds i j
      return el }

/-- `add_assign_rows(dest, src, _start_col)`: whole rows -/
def addAssignRows (m : DenseBinaryMatrix) (dest src _startCol : Nat) : DenseBinaryMatrix :=
  let s := m.elements.getD src #[]
  { m with elements := m.elements.modify dest fun r => r.mapIdx fun k x => x != s.getD k false }

def resize (m : DenseBinaryMatrix) (newHeight newWidth : Nat) : DenseBinaryMatrix :=
  { height := newHeight, width := newWidth
    elements := (m.elements.extract 0 newHeight).map fun r => r.extract 0 newWidth }

instance : BinaryMatrix DenseBinaryMatrix where
  height m := m.height
  width m := m.width
  countOnes := countOnes
  getRowIter := getRowIter
  getOnesInColumn := getOnesInColumn
  getSubRowAsOctets := getSubRowAsOctets
  queryNonZeroColumns := queryNonZeroColumns
  get := get
  set := set
  swapRows := swapRows
  swapColumns := swapColumns
  enableColumnAccessAcceleration m := m
  disableColumnAccessAcceleration m := m
  hintColumnDenseAndFrozen m _ := m
  addAssignRows := addAssignRows
  resize := resize

end DenseBinaryMatrix

/-! ## `src/sparse_matrix.rs`

The sparse back-end is the code-shaped `Rq.Sparse` of Sparse.lean, whose operations give `none`
for a panic; the solver only makes calls that do not panic, so the instance falls back to the
unchanged matrix / an empty answer there. -/

namespace SparseBinaryMatrix

/-- bit `col` (0 = first dense column) of the dense tail of physical row `pr` -/
def denseBit (m : Sparse) (pr col : Nat) : Bool :=
  let (wd, b) := m.bitPos pr col
  testBit64 (m.dense.getD wd 0) b

/-- `get_sub_row_as_octets`: the `num_dense_columns` bits of the row's dense words -/
def getSubRowAsOctets (m : Sparse) (row _startCol : Nat) : Array Bool :=
  let pr := m.l2pR.getD row 0
  Array.ofFn (n := m.nd) fun k => denseBit m pr k.val

/-- `query_non_zero_columns` (start_col = the first dense column): ascending dense columns -/
def queryNonZeroColumns (m : Sparse) (row startCol : Nat) : Array Nat := Id.run do
  let pr := m.l2pR.getD row 0
  let mut out : Array Nat := #[]
  for k in [0:m.nd] do
    if denseBit m pr k then out := out.push (startCol + k)
  return out

/-- `enable_column_access_acceleration`: the column index (`sparse_columnar_values`), physical
column ↦ physical rows in the order `ImmutableListMapBuilder::build` leaves them in. (The
`Sparse.enableIndex` of Sparse.lean lists the rows in ascending order instead.) -/
def enableColumnAccessAcceleration (m : Sparse) : Sparse := Id.run do
  let mut builder := ImmutableListMapBuilder.new m.h
  for physicalRow in [0:m.rows.size] do
    for physicalCol in m.rows.getD physicalRow [] do
      builder := builder.add physicalCol physicalRow
  match builder.build with
  | none => return m
  | some map =>
    return { m with indexDisabled := false
                    index := some (Array.ofFn (n := m.h) fun pc => (map.get pc.val).toList) }

instance : BinaryMatrix Sparse where
  height m := m.h
  width m := m.w
  countOnes m row a b := (m.countOnes row a b).getD 0
  getRowIter m row a b := ((m.rowIter row a b).getD []).toArray
  getOnesInColumn m col a b := ((m.onesInCol col a b).getD []).toArray
  getSubRowAsOctets := getSubRowAsOctets
  queryNonZeroColumns := queryNonZeroColumns
  get m i j := (m.get i j).getD false
  set m i j v := (m.set i j v).getD m
  swapRows m i j := (m.swapRows i j).getD m
  swapColumns m i j _ := (m.swapCols i j).getD m
  enableColumnAccessAcceleration := enableColumnAccessAcceleration
  disableColumnAccessAcceleration m := m.disableIndex
  hintColumnDenseAndFrozen m i := (m.freeze i).getD m
  addAssignRows m dest src startCol := (m.addAssign dest src startCol).getD m
  resize m nh nw := (m.resize nh nw).getD m

end SparseBinaryMatrix

/-! ## `src/pi_solver.rs` -/

open BinaryMatrix

inductive RowOp where
  | addAssign (src dest : Nat)
  | swap (row1 row2 : Nat)
deriving Inhabited, Repr

/-- `Vec::swap_remove` -/
def swapRemove (a : Array Nat) (index : Nat) : Array Nat :=
  (a.setIfInBounds index (a.getD (a.size - 1) 0)).pop

/-- `if let Some(index) = v.iter().position(|x| *x == row) { v.swap_remove(index); }` -/
def removeRow (a : Array Nat) (row : Nat) : Array Nat :=
  match a.findIdx? (· == row) with
  | some index => swapRemove a index
  | none => a

structure FirstPhaseRowSelectionStats where
  originalDegree : U16ArrayMap
  onesPerRow : U16ArrayMap
  onesHistogram : U32VecMap
  startCol : Nat
  endCol : Nat
  startRow : Nat
  rowsWithSingleOne : Array Nat
  /-- mapping from columns (graph nodes) to their connected component id for the r = 2 substep -/
  colGraph : ConnectedComponentGraph
deriving Inhabited

namespace FirstPhaseRowSelectionStats

variable {M : Type} [BinaryMatrix M]

/-- the first two ones of `get_row_iter(row, start_col, end_col)`; `none` = `assert_eq!(found, 2)` -/
def firstTwoOnes (matrix : M) (row startCol endCol : Nat) : Option (Nat × Nat) :=
  let ones := getRowIter matrix row startCol endCol
  if ones.size ≥ 2 then some (ones.getD 0 0, ones.getD 1 0) else none

/-- `first_phase_graph_substep_build_adjacency` -/
def firstPhaseGraphSubstepBuildAdjacency (st : FirstPhaseRowSelectionStats)
    (startRow endRow : Nat) (matrix : M) : Option UndirectedGraph := do
  let mut graph := UndirectedGraph.withCapacity st.startCol st.endCol (endRow - startRow)
  for row in [startRow:endRow] do
    if st.onesPerRow.get row != 2 then continue
    let (c0, c1) ← firstTwoOnes matrix row st.startCol st.endCol
    graph := graph.addEdge c0 c1
  return graph.build

/-- `rebuild_connected_components` -/
def rebuildConnectedComponents (st : FirstPhaseRowSelectionStats) (startRow endRow : Nat)
    (matrix : M) : Option FirstPhaseRowSelectionStats := do
  -- reset connected component structures
  let mut colGraph := st.colGraph.reset
  let graph ← st.firstPhaseGraphSubstepBuildAdjacency startRow endRow matrix
  for key in graph.nodes do
    let (g, connectedComponentId) := colGraph.createConnectedComponent
    colGraph := g
    -- pick arbitrary node (column) to start
    let mut nodeQueue : Array Nat := #[key]
    -- `while let Some(node) = node_queue.pop()`: every node is expanded once, so at most
    -- 1 + |edges| pushes
    for _ in [0:graph.edges.size + 2] do
      match nodeQueue.back? with
      | none => break
      | some node =>
        nodeQueue := nodeQueue.pop
        if colGraph.contains node then continue
        colGraph := colGraph.addNode node connectedComponentId
        for nextNode in graph.getAdjacentNodes node do
          nodeQueue := nodeQueue.push nextNode
  return { st with colGraph := colGraph }

/-- `FirstPhaseRowSelectionStats::new` -/
def new (matrix : M) (endCol endRow : Nat) : Option FirstPhaseRowSelectionStats := do
  let mut result : FirstPhaseRowSelectionStats :=
    { originalDegree := U16ArrayMap.new 0 0
      onesPerRow := U16ArrayMap.new 0 (height matrix)
      onesHistogram := U32VecMap.new 0
      startCol := 0
      endCol := endCol
      startRow := 0
      rowsWithSingleOne := #[]
      colGraph := ConnectedComponentGraph.new endCol }
  for row in [0:height matrix] do
    let ones := countOnes matrix row 0 endCol
    result := { result with onesPerRow := result.onesPerRow.insert row ones
                            onesHistogram := result.onesHistogram.increment ones }
    if ones == 1 then
      result := { result with rowsWithSingleOne := result.rowsWithSingleOne.push row }
  -- original degree is the degree of each row before processing begins
  result := { result with originalDegree := result.onesPerRow }
  result.rebuildConnectedComponents 0 endRow matrix

def swapRows (st : FirstPhaseRowSelectionStats) (i j : Nat) : FirstPhaseRowSelectionStats :=
  { st with onesPerRow := st.onesPerRow.swap i j
            originalDegree := st.originalDegree.swap i j
            rowsWithSingleOne := st.rowsWithSingleOne.map fun row =>
              if row == i then j else if row == j then i else row }

def swapColumns (st : FirstPhaseRowSelectionStats) (i j : Nat) : FirstPhaseRowSelectionStats :=
  { st with colGraph := st.colGraph.swap i j }

/-- `add_graph_edge`: update the connected component graph by adding an edge (specified by row) -/
def addGraphEdge (st : FirstPhaseRowSelectionStats) (row : Nat) (matrix : M)
    (startCol endCol : Nat) : Option FirstPhaseRowSelectionStats := do
  let (c0, c1) ← firstTwoOnes matrix row startCol endCol
  return { st with colGraph := st.colGraph.addEdge c0 c1 }

/-- `remove_graph_edge`: no-op -/
def removeGraphEdge (st : FirstPhaseRowSelectionStats) (_row : Nat) (_matrix : M) :
    FirstPhaseRowSelectionStats := st

/-- `recompute_row`: recompute all stored statistics for the given row -/
def recomputeRow (st : FirstPhaseRowSelectionStats) (row : Nat) (matrix : M) :
    Option FirstPhaseRowSelectionStats := do
  let mut st := st
  let ones := countOnes matrix row st.startCol st.endCol
  st := { st with rowsWithSingleOne := removeRow st.rowsWithSingleOne row }
  if ones == 1 then
    st := { st with rowsWithSingleOne := st.rowsWithSingleOne.push row }
  st := { st with onesHistogram := (st.onesHistogram.decrement (st.onesPerRow.get row)).increment ones }
  if st.onesPerRow.get row == 2 then
    st := st.removeGraphEdge row matrix
  st := { st with onesPerRow := st.onesPerRow.insert row ones }
  if ones == 2 then
    st ← st.addGraphEdge row matrix st.startCol st.endCol
  return st

/-- the body shared by the two loops of `resize` over the rows losing a one:
decrement, maintain `rows_with_single_one`, collect candidates for new graph edges, histogram -/
def resizeDropOne (st : FirstPhaseRowSelectionStats) (row : Nat) (matrix : M)
    (possibleNewGraphEdges : Array Nat) : FirstPhaseRowSelectionStats × Array Nat := Id.run do
  let mut st := st
  let mut possibleNewGraphEdges := possibleNewGraphEdges
  st := { st with onesPerRow := st.onesPerRow.decrement row }
  let ones := st.onesPerRow.get row
  if ones == 0 then
    st := { st with rowsWithSingleOne := removeRow st.rowsWithSingleOne row }
  else if ones == 1 then
    st := { st with rowsWithSingleOne := st.rowsWithSingleOne.push row }
    st := st.removeGraphEdge row matrix
  if ones == 2 then
    possibleNewGraphEdges := possibleNewGraphEdges.push row
  st := { st with onesHistogram := (st.onesHistogram.decrement (ones + 1)).increment ones }
  return (st, possibleNewGraphEdges)

/-- `resize`: set the valid columns, and recalculate statistics. `onesInStartCol` = the ones of
the old start column in rows start_row .. end_row. -/
def resize (st : FirstPhaseRowSelectionStats) (startRow endRow startCol endCol : Nat)
    (onesInStartCol : Array Nat) (matrix : M) : Option FirstPhaseRowSelectionStats := do
  let mut st := st
  -- only shrinking is supported
  if !(endCol ≤ st.endCol) || st.startRow != startRow - 1 || st.startCol != startCol - 1 then none
  -- remove this separately, since it's not part of ones_in_start_col
  if get matrix st.startRow st.startCol then
    let row := st.startRow
    st := { st with onesPerRow := st.onesPerRow.decrement row }
    let ones := st.onesPerRow.get row
    if ones == 0 then
      st := { st with rowsWithSingleOne := removeRow st.rowsWithSingleOne row }
    else if ones == 1 then
      st := st.removeGraphEdge row matrix
    st := { st with onesHistogram := (st.onesHistogram.decrement (ones + 1)).increment ones }
  let mut possibleNewGraphEdges : Array Nat := #[]
  for row in onesInStartCol do
    let (st', p) := st.resizeDropOne row matrix possibleNewGraphEdges
    st := st'
    possibleNewGraphEdges := p
  st := { st with colGraph := st.colGraph.removeNode (startCol - 1) }
  for col in [endCol:st.endCol] do
    let onesInRemovedCol := getOnesInColumn matrix col st.startRow endRow
    for row in onesInRemovedCol do
      let (st', p) := st.resizeDropOne row matrix possibleNewGraphEdges
      st := st'
      possibleNewGraphEdges := p
    st := { st with colGraph := st.colGraph.removeNode col }
  for row in possibleNewGraphEdges do
    if st.onesPerRow.get row == 2 then
      st ← st.addGraphEdge row matrix startCol endCol
  return { st with startCol := startCol, endCol := endCol, startRow := startRow }

/-- `first_phase_graph_substep`: a row with two ones in a column of the largest component;
`none` = `unreachable!()` -/
def firstPhaseGraphSubstep (st : FirstPhaseRowSelectionStats) (startRow endRow : Nat)
    (matrix : M) : Option Nat := do
  -- find a node (col) in the largest connected component
  let node ← st.colGraph.getNodeInLargestConnectedComponent st.startCol st.endCol
  -- find a row with two ones in the given column
  let onesInColumn := getOnesInColumn matrix node startRow endRow
  onesInColumn.find? fun row => st.onesPerRow.get row == 2

/-- `first_phase_original_degree_substep`: strict `<` keeps the first minimum; `none` = `unwrap` -/
def firstPhaseOriginalDegreeSubstep (st : FirstPhaseRowSelectionStats)
    (startRow endRow r : Nat) : Option Nat := do
  let mut chosen : Option Nat := none
  let mut chosenOriginalDegree := 65535
  -- fast path for r = 1
  if r == 1 then
    for row in st.rowsWithSingleOne do
      let rowOriginalDegree := st.originalDegree.get row
      if rowOriginalDegree < chosenOriginalDegree then
        chosen := some row
        chosenOriginalDegree := rowOriginalDegree
  else
    for row in [startRow:endRow] do
      let ones := st.onesPerRow.get row
      let rowOriginalDegree := st.originalDegree.get row
      if ones == r && rowOriginalDegree < chosenOriginalDegree then
        chosen := some row
        chosenOriginalDegree := rowOriginalDegree
  chosen

/-- `first_phase_selection`: selects from [start_row, end_row) reading [start_col, end_col).
Result `some none` = `(None, None)` (no row with a one in V), `some (some (row, r))` = the chosen
row and its number r of non-zeros, `none` = a panic. -/
def firstPhaseSelection (st : FirstPhaseRowSelectionStats) (startRow endRow : Nat)
    (matrix : M) : Option (Option (Nat × Nat)) := do
  let mut rOpt : Option Nat := none
  for i in [1:st.endCol - st.startCol + 1] do
    if st.onesHistogram.get i > 0 then
      rOpt := some i
      break
  match rOpt with
  | none => return none
  | some r =>
    if r == 2 then
      let row ← st.firstPhaseGraphSubstep startRow endRow matrix
      return some (row, r)
    else
      let row ← st.firstPhaseOriginalDegreeSubstep startRow endRow r
      return some (row, r)

end FirstPhaseRowSelectionStats

/-- `IntermediateSymbolDecoder<T>` (section 5.4.2.1), without D and without the debug-only X -/
structure IntermediateSymbolDecoder (M : Type) where
  A : M
  /-- if present, these are treated as replacing the last rows of A -/
  AHdpcRows : Option DenseOctetMatrix
  c : Array Nat
  d : Array Nat
  i : Nat
  u : Nat
  L : Nat
  /-- operations on D are deferred to the end of the codec -/
  deferredDOps : Array SymOp

namespace IntermediateSymbolDecoder

variable {M : Type} [BinaryMatrix M]

/-- `swap_rows` (the asserts "can't swap HDPC rows" are not modelled) -/
def swapRows (dec : IntermediateSymbolDecoder M) (i iprime : Nat) : IntermediateSymbolDecoder M :=
  { dec with A := BinaryMatrix.swapRows dec.A i iprime
             d := dec.d.swapIfInBounds i iprime }

/-- `swap_columns` -/
def swapColumns (dec : IntermediateSymbolDecoder M) (j jprime startRow : Nat) :
    IntermediateSymbolDecoder M :=
  { dec with A := BinaryMatrix.swapColumns dec.A j jprime startRow
             AHdpcRows := dec.AHdpcRows.map fun hdpc => hdpc.swapColumns j jprime 0
             c := dec.c.swapIfInBounds j jprime }

/-- `IntermediateSymbolDecoder::new`; `symbolsLen` = `symbols.len()` (= the height of the matrix) -/
def new (matrix : M) (hdpcRows : DenseOctetMatrix) (symbolsLen : Nat) (sp : SysParams) :
    IntermediateSymbolDecoder M := Id.run do
  let c := Array.range (width matrix)
  let d := Array.range symbolsLen
  let numRows := height matrix
  let mut temp : IntermediateSymbolDecoder M :=
    { A := enableColumnAccessAcceleration matrix
      AHdpcRows := none
      c := c
      d := d
      i := 0
      u := sp.p
      L := sp.l
      deferredDOps := #[] }
  -- swap the HDPC rows, so that they're the last in the matrix
  for i in [0:sp.h] do
    temp := temp.swapRows (sp.s + i) (numRows - sp.h + i)
  return { temp with AHdpcRows := some hdpcRows }

/-- `IntermediateSymbolDecoder::new_no_hdpc`: a solver without HDPC rows (decoding with enough
overhead to solve the system in GF(2) only). The constraint matrix must NOT contain HDPC rows
(G_ENC starts at row S); no row swapping, `A_hdpc_rows` stays `None`. -/
def newNoHdpc (matrix : M) (symbolsLen : Nat) (sp : SysParams) : IntermediateSymbolDecoder M :=
  { A := enableColumnAccessAcceleration matrix
    AHdpcRows := none
    c := Array.range (width matrix)
    d := Array.range symbolsLen
    i := 0
    u := sp.p
    L := sp.l
    deferredDOps := #[] }

/-- `record_mul_row` -/
def recordMulRow (dec : IntermediateSymbolDecoder M) (i beta : Nat) : IntermediateSymbolDecoder M :=
  { dec with deferredDOps := dec.deferredDOps.push (.mul (dec.d.getD i 0) beta) }

/-- `record_fma_rows` -/
def recordFmaRows (dec : IntermediateSymbolDecoder M) (i iprime beta : Nat) :
    IntermediateSymbolDecoder M :=
  if beta == 1 then
    { dec with deferredDOps := dec.deferredDOps.push (.add (dec.d.getD iprime 0) (dec.d.getD i 0)) }
  else
    { dec with deferredDOps := dec.deferredDOps.push (.fma (dec.d.getD iprime 0) (dec.d.getD i 0) beta) }

/-- `fma_rows_with_pi` (release build: the V part of an HDPC row is not updated) -/
def fmaRowsWithPi (dec : IntermediateSymbolDecoder M) (i iprime beta : Nat)
    (piOctets : Option (Array Bool)) (startCol : Nat) : IntermediateSymbolDecoder M :=
  let dec := dec.recordFmaRows i iprime beta
  match dec.AHdpcRows with
  | some hdpc =>
    let firstHdpcRow := height dec.A - hdpc.height
    if iprime ≥ firstHdpcRow then
      -- handle this part separately, since it's in the dense U part of the matrix
      let octets := piOctets.getD #[]
      let hdpc := hdpc.fmaSubRow (iprime - firstHdpcRow) (width dec.A - octets.size) beta octets
      { dec with AHdpcRows := some hdpc }
    else
      { dec with A := addAssignRows dec.A iprime i startCol }
  | none =>
    { dec with A := addAssignRows dec.A iprime i startCol }

/-- `fma_rows` -/
def fmaRows (dec : IntermediateSymbolDecoder M) (i iprime beta startCol : Nat) :
    IntermediateSymbolDecoder M :=
  dec.fmaRowsWithPi i iprime beta none startCol

/-- `while self.A.get(self.i, dest) != Octet::zero() { dest -= 1; }` -/
def skipNonZeros (matrix : M) (row : Nat) : Nat → Nat
  | 0 => 0
  | dest + 1 => if get matrix row (dest + 1) then skipNonZeros matrix row dest else dest + 1

/-- `first_phase_swap_columns_substep`: the column swapping substep of the first phase, after the
row has been chosen. For r ≥ 2 the loop runs over a *clone* of the row iterator (a snapshot of
row i), while `dest` is searched in the live matrix. -/
def firstPhaseSwapColumnsSubstep (dec : IntermediateSymbolDecoder M) (r : Nat)
    (selectionHelper : FirstPhaseRowSelectionStats) :
    Option (IntermediateSymbolDecoder M × FirstPhaseRowSelectionStats) := do
  let mut dec := dec
  let mut selectionHelper := selectionHelper
  -- fast path when r == 1
  if r == 1 then
    let col ← (getRowIter dec.A dec.i dec.i (width dec.A - dec.u))[0]?
    -- no need to swap the first i rows, as they are all zero (see submatrix above V)
    dec := dec.swapColumns dec.i col dec.i
    selectionHelper := selectionHelper.swapColumns dec.i col
    return (dec, selectionHelper)
  let mut remainingSwaps := r
  let mut foundFirst := get dec.A dec.i dec.i
  for col in getRowIter dec.A dec.i dec.i (width dec.A - dec.u) do
    if col ≥ width dec.A - dec.u - (r - 1) then
      -- skip the column, if it's one of the trailing columns that shouldn't move
      remainingSwaps := remainingSwaps - 1
      continue
    if col == dec.i then
      -- skip the column, if it's already in the first position
      remainingSwaps := remainingSwaps - 1
      foundFirst := true
      continue
    let mut dest := 0
    if !foundFirst then
      dest := dec.i
      foundFirst := true
    else
      -- some of the right most columns may already contain non-zeros
      dest := skipNonZeros dec.A dec.i (width dec.A - dec.u - 1)
    dec := dec.swapColumns dest col dec.i
    selectionHelper := selectionHelper.swapColumns dest col
    remainingSwaps := remainingSwaps - 1
    if remainingSwaps == 0 then break
  if remainingSwaps != 0 then none
  return (dec, selectionHelper)

/-- `record_symbol_ops`: debug statistics only -/
def recordSymbolOps (dec : IntermediateSymbolDecoder M) (_phase : Nat) :
    IntermediateSymbolDecoder M := dec

/-- `first_phase` (section 5.4.2.2). Returns the row operations required to convert the X matrix
into the identity; `none` = no row with a non-zero in V is left (or a panic). -/
def firstPhase (dec : IntermediateSymbolDecoder M) :
    Option (IntermediateSymbolDecoder M × Array RowOp) := do
  let mut dec := dec
  let numHdpcRows := match dec.AHdpcRows with
    | some h => h.height
    | none => 0
  let mut selectionHelper ← FirstPhaseRowSelectionStats.new dec.A (width dec.A - dec.u)
    (height dec.A - numHdpcRows)
  -- record of first phase row operations performed on non-HDPC rows
  let mut rowOps : Array RowOp := #[]
  -- `while self.i + self.u < self.L`: i grows in every round
  for _ in [0:dec.L] do
    if !(dec.i + dec.u < dec.L) then break
    -- "Let r be the minimum integer such that at least one row of A has exactly r nonzeros in V."
    let (chosenRow, r) ← ← selectionHelper.firstPhaseSelection dec.i
      (height dec.A - numHdpcRows) dec.A
    if !(chosenRow ≥ dec.i) then none
    -- reorder rows
    let temp := dec.i
    dec := dec.swapRows temp chosenRow
    rowOps := rowOps.push (.swap temp chosenRow)
    selectionHelper := selectionHelper.swapRows temp chosenRow
    -- reorder columns
    let (dec', helper') ← dec.firstPhaseSwapColumnsSubstep r selectionHelper
    dec := dec'
    selectionHelper := helper'
    -- zero out leading value in following rows
    let temp := dec.i
    let tempValue := if get dec.A temp temp then 1 else 0
    let pivotColumnOnes := getOnesInColumn dec.A temp (dec.i + 1) (height dec.A - numHdpcRows)
    selectionHelper ← selectionHelper.resize (dec.i + 1) (height dec.A - numHdpcRows) (dec.i + 1)
      (width dec.A - dec.u - (r - 1)) pivotColumnOnes dec.A
    for k in [0:r - 1] do
      dec := { dec with A := hintColumnDenseAndFrozen dec.A (width dec.A - dec.u - 1 - k) }
    -- skip the first element since that's the i'th row
    for row in pivotColumnOnes do
      if tempValue != 1 then none
      -- only apply to U section of matrix due to Errata 11
      dec := dec.fmaRows temp row 1 (width dec.A - (dec.u + (r - 1)))
      rowOps := rowOps.push (.addAssign temp row)
      if r == 1 then
        -- no need to update the selection helper, since we already resized it to remove the
        -- first column
        pure ()
      else
        selectionHelper ← selectionHelper.recomputeRow row dec.A
    -- apply to hdpc rows as well, which are stored separately
    if numHdpcRows > 0 then
      let piOctets := getSubRowAsOctets dec.A temp (width dec.A - (dec.u + r - 1))
      for row in [0:numHdpcRows] do
        let leadingValue := match dec.AHdpcRows with
          | some h => h.get row temp
          | none => 0
        if leadingValue != 0 then
          -- addition is equivalent to subtraction
          let beta ← gdiv leadingValue tempValue
          dec := dec.fmaRowsWithPi temp (row + (height dec.A - numHdpcRows)) beta (some piOctets) 0
    dec := { dec with i := dec.i + 1, u := dec.u + (r - 1) }
  dec := dec.recordSymbolOps 0
  let mut mapping := Array.range (height dec.A)
  let mut out : Array RowOp := #[]
  for x in rowOps.reverse do
    match x with
    | .addAssign src dest =>
      if !(mapping.getD src 0 < dec.i) then none
      if mapping.getD src 0 < dec.i && mapping.getD dest 0 < dec.i then
        out := out.push (.addAssign (mapping.getD src 0) (mapping.getD dest 0))
    | .swap row1 row2 =>
      mapping := mapping.swapIfInBounds row1 row2
  return (dec, out.reverse)

/-- `record_reduce_to_row_echelon`: reduces the size x size submatrix, starting at row_offset and
col_offset as the upper left corner, to row echelon form; `none` = singular. -/
def recordReduceToRowEchelon (dec : IntermediateSymbolDecoder M) (hdpcRows : DenseOctetMatrix)
    (rowOffset colOffset size : Nat) :
    Option (IntermediateSymbolDecoder M × DenseOctetMatrix) := do
  let mut dec := dec
  -- copy U_lower into a new matrix and merge it with the HDPC rows
  let mut submatrix := DenseOctetMatrix.new (height dec.A - rowOffset) size
  let firstHdpcRow := height dec.A - hdpcRows.height
  for row in [rowOffset:height dec.A] do
    for col in [colOffset:colOffset + size] do
      let value :=
        if row < firstHdpcRow then (if get dec.A row col then 1 else 0)
        else hdpcRows.get (row - firstHdpcRow) col
      submatrix := submatrix.set (row - rowOffset) (col - colOffset) value
  for i in [0:size] do
    -- swap a row with leading coefficient i into place
    for j in [i:submatrix.height] do
      if submatrix.get j i != 0 then
        submatrix := submatrix.swapRows i j
        -- record the swap, in addition to swapping in the working submatrix
        dec := dec.swapRows (rowOffset + i) (j + rowOffset)
        break
    if submatrix.get i i == 0 then
      -- if all following rows are zero in this column, then matrix is singular
      none
    -- scale leading coefficient to 1
    if submatrix.get i i != 1 then
      let elementInverse ← gdiv 1 (submatrix.get i i)
      submatrix := submatrix.mulAssignRow i elementInverse
      -- record the multiplication, in addition to multiplying the working submatrix
      dec := dec.recordMulRow (rowOffset + i) elementInverse
    -- zero out all following elements in i'th column
    for j in [i + 1:submatrix.height] do
      if submatrix.get j i != 0 then
        let scalar := submatrix.get j i
        submatrix := submatrix.fmaRows j i scalar
        -- record the FMA, in addition to applying it to the working submatrix
        dec := dec.recordFmaRows (rowOffset + i) (rowOffset + j) scalar
  return (dec, submatrix)

/-- `backwards_elimination` in a size x size submatrix in row echelon form; then the identity is
written into that block of A -/
def backwardsElimination (dec : IntermediateSymbolDecoder M) (submatrix : DenseOctetMatrix)
    (rowOffset colOffset size : Nat) : IntermediateSymbolDecoder M := Id.run do
  let mut dec := dec
  for k in [0:size] do
    let i := size - 1 - k
    -- zero out all preceding elements in i'th column
    for j in [0:i] do
      if submatrix.get j i != 0 then
        let scalar := submatrix.get j i
        -- record the FMA; no need to actually apply it to the submatrix
        dec := dec.recordFmaRows (rowOffset + i) (rowOffset + j) scalar
  -- write the identity matrix into A, since that's the resulting value of this function
  let mut A := dec.A
  for row in [rowOffset:rowOffset + size] do
    for col in [colOffset:colOffset + size] do
      A := BinaryMatrix.set A row col (row == col)
  return { dec with A := A }

/-- `second_phase` (section 5.4.2.3); `none` = `false` -/
def secondPhase (dec : IntermediateSymbolDecoder M) (_xEliminationOps : Array RowOp) :
    Option (IntermediateSymbolDecoder M) := do
  -- convert U_lower to row echelon form
  let temp := dec.i
  let size := dec.u
  -- HDPC rows can be removed, since they can't have been selected for U_upper
  let hdpcRows := dec.AHdpcRows.getD (DenseOctetMatrix.new 0 size)
  let dec := { dec with AHdpcRows := none }
  let (dec, submatrix) ← dec.recordReduceToRowEchelon hdpcRows temp temp size
  -- perform backwards elimination
  let dec := dec.backwardsElimination submatrix temp temp size
  let dec := { dec with A := BinaryMatrix.resize dec.A dec.L dec.L }
  return dec.recordSymbolOps 1

/-- `third_phase` (section 5.4.2.4): A[0..i][..] = X * A[0..i][..] by applying Errata 10 -/
def thirdPhase (dec : IntermediateSymbolDecoder M) (xEliminationOps : Array RowOp) :
    IntermediateSymbolDecoder M := Id.run do
  let mut dec := dec
  for op in xEliminationOps.reverse do
    match op with
    | .addAssign src dest =>
      -- skip applying to cols before i due to Errata 11
      dec := dec.fmaRows src dest 1 dec.i
    | .swap _ _ => pure ()
  return dec.recordSymbolOps 2

/-- `fourth_phase` (section 5.4.2.5) -/
def fourthPhase (dec : IntermediateSymbolDecoder M) : IntermediateSymbolDecoder M := Id.run do
  let mut dec := dec
  for i in [0:dec.i] do
    let nonZeroColumns := queryNonZeroColumns dec.A i dec.i
    for j in nonZeroColumns do
      -- skip applying to cols before i due to Errata 11
      dec := dec.fmaRows j i 1 dec.i
  return dec.recordSymbolOps 3

/-- `fifth_phase` (section 5.4.2.6): the saved operations from the first phase (Errata 9); in
release builds A is not updated, since it will never be read -/
def fifthPhase (dec : IntermediateSymbolDecoder M) (xEliminationOps : Array RowOp) :
    IntermediateSymbolDecoder M := Id.run do
  let mut dec := dec
  for op in xEliminationOps do
    match op with
    | .addAssign src dest => dec := dec.recordFmaRows src dest 1
    | .swap _ _ => pure ()
  return dec.recordSymbolOps 4

/-- `apply_deferred_symbol_ops`: acts on D only -/
def applyDeferredSymbolOps (dec : IntermediateSymbolDecoder M) : IntermediateSymbolDecoder M := dec

/-- `execute`: the operation vector (`deferred_D_ops` followed by the `Reorder`) -/
def execute (dec : IntermediateSymbolDecoder M) : Option (List SymOp) := do
  let (dec, xEliminationOps) ← dec.firstPhase
  let dec := { dec with A := disableColumnAccessAcceleration dec.A }
  let dec ← dec.secondPhase xEliminationOps
  let dec := dec.thirdPhase xEliminationOps
  let dec := dec.fourthPhase
  let dec := dec.fifthPhase xEliminationOps
  let dec := dec.applyDeferredSymbolOps
  -- see end of section 5.4.2.1
  let mut indexMapping := Array.replicate dec.L 0
  for i in [0:dec.L] do
    indexMapping := indexMapping.setIfInBounds (dec.c.getD i 0) (dec.d.getD i 0)
  let reorder := (indexMapping.extract 0 dec.L).toList
  return (dec.deferredDOps.push (.reorder reorder)).toList

end IntermediateSymbolDecoder

/-- the dense matrix `generate_constraint_matrix::<DenseBinaryMatrix>` builds: S LDPC rows, H
all-zero placeholder rows, one G_ENC row per received symbol -/
def denseOfRows (sp : SysParams) (binRows : Array (List Nat)) : DenseBinaryMatrix :=
  let n := binRows.size - sp.s
  let height := sp.s + sp.h + n
  let zero := Array.replicate sp.l false
  let mk (cols : List Nat) : Array Bool := cols.foldl (fun r c => r.setIfInBounds c true) zero
  { height := height, width := sp.l
    elements := Array.ofFn (n := height) fun r =>
      if r.val < sp.s then mk (binRows.getD r.val [])
      else if r.val < sp.s + sp.h then zero
      else mk (binRows.getD (r.val - sp.h) []) }

/-- the sparse matrix `generate_constraint_matrix::<SparseBinaryMatrix>` builds (P trailing dense
columns), by the same `set` calls row by row -/
def sparseOfRows (sp : SysParams) (binRows : Array (List Nat)) : Sparse := Id.run do
  let n := binRows.size - sp.s
  let mut m := Sparse.new (sp.s + sp.h + n) sp.l sp.p
  for r in [0:binRows.size] do
    let row := if r < sp.s then r else r + sp.h
    for c in (binRows.getD r []).reverse do
      m := (m.set row c true).getD m
  return m

/-- the dense matrix `generate_constraint_matrix_no_hdpc::<DenseBinaryMatrix>` builds: S LDPC rows
followed by one G_ENC row per received symbol -/
def denseOfRowsNoHdpc (sp : SysParams) (binRows : Array (List Nat)) : DenseBinaryMatrix :=
  let zero := Array.replicate sp.l false
  { height := binRows.size, width := sp.l
    elements := binRows.map fun cols => cols.foldl (fun r c => r.setIfInBounds c true) zero }

/-- the sparse matrix `generate_constraint_matrix_no_hdpc::<SparseBinaryMatrix>` builds -/
def sparseOfRowsNoHdpc (sp : SysParams) (binRows : Array (List Nat)) : Sparse := Id.run do
  let mut m := Sparse.new binRows.size sp.l sp.p
  for r in [0:binRows.size] do
    for c in (binRows.getD r []).reverse do
      m := (m.set r c true).getD m
  return m

end Pi

/-- the operation vector `IntermediateSymbolDecoder::new(A, hdpc, D, K).execute()` records for the
full system of `sp` with received internal symbol ids `isis`, on the dense back-end;
`none` when the solver reports failure -/
def piSolveDense (sp : SysParams) (isis : List Nat) : Option (List SymOp) :=
  match constraintMatrix sp isis with
  | none => none
  | some (binRows, hdpc) =>
    let A := Pi.denseOfRows sp binRows
    let hdpcRows : Pi.DenseOctetMatrix := { height := sp.h, width := sp.l, elements := hdpc }
    (Pi.IntermediateSymbolDecoder.new A hdpcRows A.height sp).execute

/-- the same on the sparse back-end (`SparseBinaryMatrix`) -/
def piSolveSparse (sp : SysParams) (isis : List Nat) : Option (List SymOp) :=
  match constraintMatrix sp isis with
  | none => none
  | some (binRows, hdpc) =>
    let A := Pi.sparseOfRows sp binRows
    let hdpcRows : Pi.DenseOctetMatrix := { height := sp.h, width := sp.l, elements := hdpc }
    (Pi.IntermediateSymbolDecoder.new A hdpcRows A.h sp).execute

/-- `fused_inverse_mul_symbols_no_hdpc`: the operation vector
`IntermediateSymbolDecoder::new_no_hdpc(A, D, K).execute()` records for the binary-only system
(`generate_constraint_matrix_no_hdpc(K, isis)`: LDPC rows and G_ENC rows, no HDPC rows) on the
dense back-end; `none` when the solver reports failure -/
def piSolveDenseNoHdpc (sp : SysParams) (isis : List Nat) : Option (List SymOp) :=
  match constraintMatrixNoHdpc sp isis with
  | none => none
  | some binRows =>
    let A := Pi.denseOfRowsNoHdpc sp binRows
    (Pi.IntermediateSymbolDecoder.newNoHdpc A A.height sp).execute

/-- the same on the sparse back-end -/
def piSolveSparseNoHdpc (sp : SysParams) (isis : List Nat) : Option (List SymOp) :=
  match constraintMatrixNoHdpc sp isis with
  | none => none
  | some binRows =>
    let A := Pi.sparseOfRowsNoHdpc sp binRows
    (Pi.IntermediateSymbolDecoder.newNoHdpc A A.h sp).execute

end Rq
