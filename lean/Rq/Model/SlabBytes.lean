import Rq.Model.Plan
/-!
Byte-level model of `src/symbol_slab.rs`: all symbols in one contiguous byte vector (`data`,
`count * symbol_size` bytes), symbol i at `[i*ss, (i+1)*ss)`, an optional logical→physical mapping,
and `get_pair_mut`, whose three asserts are what makes the two raw-pointer slices of the unsafe block
lie inside `data` and not overlap. `Slab` (Model/Plan.lean) is its abstraction to an array of symbols.
-/
namespace Rq

structure SlabB where
  data : List Nat
  count : Nat
  ss : Nat
  mapping : Option (List Nat)
deriving Repr, DecidableEq

def SlabB.phys (s : SlabB) (i : Nat) : Option Nat :=
  match s.mapping with
  | none => some i
  | some m => m[i]?

/-- `get_pair_mut(dest, src)`: the byte ranges (start, len) handed to the kernels — first the mutable
destination, then the shared source; `none` = one of the three asserts fires (or the mapping lookup panics) -/
def SlabB.pairRanges (s : SlabB) (dest src : Nat) : Option ((Nat × Nat) × (Nat × Nat)) :=
  match s.phys dest, s.phys src with
  | some d, some r =>
    if d ≠ r ∧ d < s.count ∧ r < s.count then some ((d * s.ss, s.ss), (r * s.ss, s.ss)) else none
  | _, _ => none

/-- `get_mut(i)`: the safe slice `data[i*ss .. i*ss+ss]`; `none` = slice panic -/
def SlabB.range (s : SlabB) (i : Nat) : Option (Nat × Nat) :=
  match s.phys i with
  | some p => if p * s.ss + s.ss ≤ s.data.length then some (p * s.ss, s.ss) else none
  | none => none

def sliceOf (l : List Nat) (r : Nat × Nat) : List Nat := (l.drop r.1).take r.2
def writeAt (l : List Nat) (start : Nat) (v : List Nat) : List Nat := l.take start ++ v ++ l.drop (start + v.length)

/-- `perform_op` on the byte-level slab -/
def SlabB.apply (s : SlabB) (op : SymOp) : Option SlabB :=
  match op with
  | .add dest src =>
    (s.pairRanges dest src).map fun (d, r) =>
      { s with data := writeAt s.data d.1 (xorSym (sliceOf s.data d) (sliceOf s.data r)) }
  | .mul dest c =>
    (s.range dest).map fun d => { s with data := writeAt s.data d.1 (mulSym c (sliceOf s.data d)) }
  | .fma dest src c =>
    (s.pairRanges dest src).map fun (d, r) =>
      { s with data := writeAt s.data d.1 (fmaSym c (sliceOf s.data d) (sliceOf s.data r)) }
  | .reorder order => some { s with mapping := some order }

/-- the array-of-symbols view -/
def SlabB.abs (s : SlabB) : Slab :=
  { syms := Array.ofFn (n := s.count) fun i => sliceOf s.data (i.val * s.ss, s.ss), mapping := s.mapping }

end Rq
