import Rq.Model.Wire
/-!
Model of the object / block / sub-block layout: `calculate_block_offsets`, the zero padding in
`Encoder::new`, `SourceBlockEncoder::create_symbols`, `SourceBlockDecoder::unpack_sub_blocks`,
the block sizing of `Decoder::new` and the final truncation. Bytes are naturals; a symbol is a
list of bytes.
-/
namespace Rq

abbrev Sym := List Nat

/-- `calculate_block_offsets(data, config)`: [start, end) per block (ZL blocks of KL symbols, then ZS
of KS). `none`: division by zero / the assert for a short object. -/
def blockOffsets (dataLen : Nat) (o : Oti) : Option (List (Nat × Nat)) :=
  match intDivCeil o.f o.t with
  | none => none
  | some kt =>
    match partition kt o.z with
    | none => none
    | some (kl, ks, zl, zs) =>
      let long := (List.range zl).map fun i => (i * (kl * o.t), (i + 1) * (kl * o.t))
      let base := zl * (kl * o.t)
      let short := (List.range zs).map fun i => (base + i * (ks * o.t), base + (i + 1) * (ks * o.t))
      if short.any (fun (_, e) => decide (e > dataLen)) ∧ ¬ (kt * o.t > dataLen) then none
      else some (long ++ short)

/-- the bytes of one block: `data[start..end)` zero padded when the range leaves the object
(`none`: `data[start..]` with start > len panics) -/
def blockBytes (data : List Nat) (r : Nat × Nat) : Option (List Nat) :=
  if r.2 > data.length then
    if r.1 > data.length then none
    else some (data.drop r.1 ++ List.replicate (r.2 - data.length) 0)
  else some ((data.drop r.1).take (r.2 - r.1))

/-- sub-symbol sizes in bytes: NL sub-blocks of TL·Al, then NS of TS·Al -/
def subSizes (t al n : Nat) : Option (List Nat) :=
  if al = 0 then none else
  match partition (t / al) n with
  | none => none
  | some (tl, ts, nl, ns) => some (List.replicate nl (tl * al) ++ List.replicate ns (ts * al))

/-- `create_symbols`: symbol `m` is the concatenation over sub-blocks j of the m-th sub-symbol of
sub-block j; with N ≤ 1 plain chunks of T bytes. `none`: an assert fails. -/
def createSymbols (t al n : Nat) (data : List Nat) : Option (List Sym) :=
  if t = 0 then none
  else if data.length % t ≠ 0 then none
  else
    let k := data.length / t
    if n > 1 then
      match subSizes t al n with
      | none => none
      | some sizes =>
        -- walk the sub-blocks: sub-block j occupies the next k * size_j bytes
        let rec go (sizes : List Nat) (off : Nat) (acc : List Sym) : List Sym × Nat :=
          match sizes with
          | [] => (acc, off)
          | sz :: rest =>
            let acc' := (List.range k).zipWith (fun m (s : Sym) => s ++ (data.drop (off + m * sz)).take sz) acc
            go rest (off + k * sz) acc'
        let (syms, off) := go sizes 0 (List.replicate k [])
        if off = data.length then some syms else none
    else some ((List.range k).map fun m => (data.drop (m * t)).take t)

/-- `unpack_sub_blocks(result, symbol, m)`: the list of (position in the block, byte) writes -/
def unpackWrites (t al n k : Nat) (sym : Sym) (m : Nat) : Option (List (Nat × Nat)) :=
  match subSizes t al n with
  | none => none
  | some sizes =>
    let rec go (sizes : List Nat) (symOff subOff : Nat) (acc : List (Nat × Nat)) : List (Nat × Nat) :=
      match sizes with
      | [] => acc
      | sz :: rest =>
        let start := subOff + sz * m
        let ws := (List.range sz).map fun i => (start + i, sym.getD (symOff + i) 0)
        go rest (symOff + sz) (subOff + sz * k) (acc ++ ws)
    some (go sizes 0 0 [])

/-- rebuild a block of `k` symbols from its symbols (all present) -/
def unpackBlock (t al n k : Nat) (syms : List Sym) : Option (List Nat) :=
  let init : Array Nat := Array.replicate (t * k) 0
  let rec go (m : Nat) (rest : List Sym) (acc : Array Nat) : Option (Array Nat) :=
    match rest with
    | [] => some acc
    | s :: rest' =>
      match unpackWrites t al n k s m with
      | none => none
      | some ws =>
        if ws.any (fun (p, _) => decide (p ≥ acc.size)) ∨ s.length < t then none
        else go (m + 1) rest' (ws.foldl (fun a (p, v) => a.setIfInBounds p v) acc)
  (go 0 syms init).map Array.toList

/-- block symbol counts of `Decoder::new`: ZL blocks of KL, ZS of KS -/
def blockCounts (o : Oti) : Option (List Nat) :=
  match intDivCeil o.f o.t with
  | none => none
  | some kt =>
    match partition kt o.z with
    | none => none
    | some (kl, ks, zl, zs) => some (List.replicate zl kl ++ List.replicate zs ks)

end Rq
