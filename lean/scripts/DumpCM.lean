import Rq.Model.Matrix
/-! `lake env lean --run scripts/DumpCM.lean K'` prints the model's parameters and constraint matrix of K'
(used by /tmp/lp2/gencert.py; not part of the library). -/
open Rq

def joinNat (l : List Nat) : String := " ".intercalate (l.map toString)

def main (args : List String) : IO UInt32 := do
  let k := (args.head!).toNat!
  match sysParams k with
  | none => IO.eprintln "sysParams: none"; return 1
  | some sp =>
    IO.println s!"sp {sp.kp} {sp.j} {sp.s} {sp.h} {sp.w} {sp.l} {sp.p} {sp.p1}"
    match ldpcRows sp, encRows sp (List.range sp.kp), hdpcCols sp.h (sp.kp + sp.s), hdpcRows sp with
    | some l, some e, some c, some h =>
      for r in l.toList do IO.println s!"ldpc {joinNat r}"
      for r in e do IO.println s!"enc {joinNat r}"
      for r in c.toList do IO.println s!"col {joinNat r}"
      for r in h.toList do IO.println s!"hd {joinNat r.toList}"
      return 0
    | _, _, _, _ => IO.eprintln "constraintMatrix: none"; return 1
