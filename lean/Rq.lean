import Rq.Model.Driver
