import Rq.Model.Driver
import Rq.Model.DriverE3
open Rq.Driver

def handle (line : String) : String :=
  let w := (line.trimAscii.toString.splitOn " ").filter (· ≠ "")
  match handleE2 w with
  | some r => r
  | none =>
    match Rq.DriverE3.handle w with
    | some r => r
    | none =>
      match Rq.DriverK.handle w with
      | some r => r
      | none =>
        match Rq.DriverP.handle w with
        | some r => r
        | none =>
          match Rq.DriverM.handle w with
          | some r => r
          | none =>
            match Rq.DriverC.handle w with
            | some r => r
            | none =>
              match Rq.DriverS.handle w with
              | some r => r
              | none => "bad-request"

partial def loop (hin hout : IO.FS.Stream) : IO Unit := do
  let line ← hin.getLine
  if line.isEmpty then return ()
  hout.putStrLn (handle line)
  loop hin hout

def main : IO Unit := do
  let hin ← IO.getStdin
  let hout ← IO.getStdout
  loop hin hout
