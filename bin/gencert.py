#!/usr/bin/env python3
"""Generate kernel-checked invertibility certificates for RFC 6330 constraint matrices A(K').

usage:  python3 bin/gencert.py [--lean-dir /verif/lean] [--chunk N] K' [K' ...]
        python3 bin/gencert.py --umbrella K' [K' ...]     (only rewrite Rq/Thm/C06c.lean)
        python3 bin/gencert.py --no-umbrella K' [K' ...]  (only write the Cert modules)

For every K' it
  * asks the Lean model (scripts/DumpCM.lean, run with `lake env lean --run`) for the parameters, the
    LDPC rows, the G_ENC rows of ISI 0..K'-1 and the columns of G_HDPC,
  * inverts A(K') over GF(256) (polynomial 0x11D, generator 2) here, untrusted,
  * writes <lean-dir>/Rq/Thm/Cert/K<K'>.lean, whose kernel facts re-check everything
    (the literal parts against the packed mirrors of the model, the packed table AP against the
    parts, BP * AP = I in row chunks) and conclude with `Rq.Cert.determined_of_cert`.
It also rewrites the umbrella <lean-dir>/Rq/Thm/C06c.lean for the sizes given on the command line.
Standard library only.
"""
import os
import subprocess
import sys

TABLE = [10, 12, 18, 20, 26, 30, 32, 36, 42, 46, 48, 49, 55, 60, 62, 69, 75, 84, 88, 91, 95, 97, 101,
         114, 119, 125, 127, 138, 140, 149, 153, 160, 166, 168, 179, 181, 185, 187, 200]

# ---------------------------------------------------------------- GF(256)
EXP = [0] * 510
LOG = [0] * 256
_x = 1
for _i in range(255):
    EXP[_i] = _x
    LOG[_x] = _i
    _x <<= 1
    if _x & 0x100:
        _x ^= 0x11D
for _i in range(255, 510):
    EXP[_i] = EXP[_i - 255]


def gmul(a, b):
    return 0 if a == 0 or b == 0 else EXP[LOG[a] + LOG[b]]


def ginv(a):
    return EXP[255 - LOG[a]]


def invert(a):
    n = len(a)
    m = [list(a[i]) + [1 if i == j else 0 for j in range(n)] for i in range(n)]
    for c in range(n):
        p = next((r for r in range(c, n) if m[r][c] != 0), None)
        if p is None:
            raise SystemExit("matrix is singular")
        m[c], m[p] = m[p], m[c]
        f = ginv(m[c][c])
        m[c] = [gmul(f, v) for v in m[c]]
        for r in range(n):
            if r != c and m[r][c] != 0:
                g = m[r][c]
                m[r] = [v ^ gmul(g, w) for v, w in zip(m[r], m[c])]
    return [row[n:] for row in m]


# ---------------------------------------------------------------- model
def dump(lean_dir, k):
    out = subprocess.run(["lake", "env", "lean", "--run", "scripts/DumpCM.lean", str(k)], cwd=lean_dir,
                         capture_output=True, text=True)
    if out.returncode != 0:
        raise SystemExit("DumpCM failed for K'=%d: %s" % (k, out.stderr))
    d = {"ldpc": [], "enc": [], "col": [], "hd": []}
    for ln in out.stdout.splitlines():
        p = ln.split()
        if not p:
            continue
        if p[0] == "sp":
            d["sp"] = list(map(int, p[1:]))
        elif p[0] in d:
            d[p[0]].append(list(map(int, p[1:])))
    return d


def lst(x):
    return "[" + ", ".join(map(str, x)) + "]"


def wrap(s, width=110, indent="  "):
    out, line = [], indent
    for tok in s.split(" "):
        if len(line) + len(tok) + 1 > width and line.strip():
            out.append(line.rstrip())
            line = indent
        line += tok + " "
    out.append(line.rstrip())
    return "\n".join(out)


def gen(lean_dir, k, chunk):
    if k not in TABLE:
        raise SystemExit("K'=%d is not one of the Table-2 sizes known to this script" % k)
    d = dump(lean_dir, k)
    kp, j, s, h, w, l, p, p1 = d["sp"]
    assert kp == k and s + h + k == l
    idx = TABLE.index(k)
    # A in the row order LDPC, HDPC, G_ENC
    rows = []
    for cols in d["ldpc"]:
        rows.append([1 if c in cols else 0 for c in range(l)])
    hd = []
    for i in range(h):
        hd.append([(d["col"][c][i] if c < kp + s else (1 if c == kp + s + i else 0)) for c in range(l)])
    assert hd == d["hd"], "HDPC rows rebuilt from the columns differ from the model's"
    rows += hd
    for cols in d["enc"]:
        rows.append([1 if c in cols else 0 for c in range(l)])
    assert len(rows) == l
    b = invert(rows)
    ap = sum(v << (8 * (r * l + c)) for r in range(l) for c, v in enumerate(rows[r]))
    bp = sum(v << (8 * (r * l + c)) for r in range(l) for c, v in enumerate(b[r]))
    n = k
    L = "#[" + ", ".join(lst(r) for r in d["ldpc"]) + "]"
    E = "[" + ", ".join(lst(r) for r in d["enc"]) + "]"
    C = "[" + ", ".join(lst(r) for r in d["col"]) + "]"
    if chunk is None:
        # keep one kernel fact at roughly <= 6000 products
        chunk = max(1, 6000 // (l * l))
    bounds = list(range(0, l, chunk)) + [l]
    inv_thms, cases = [], []
    for ci in range(len(bounds) - 1):
        lo, hi = bounds[ci], bounds[ci + 1]
        inv_thms.append("theorem inv%d_%d : checkInvRows %d %d AP%d BP%d %d %d = true := by decide +kernel"
                        % (n, ci, l, l, n, n, lo, hi - lo))
        if ci < len(bounds) - 2:
            cases.append("  rcases Nat.lt_or_ge i %d with h | h\n"
                         "  · exact checkInvRows_spec %d %d AP%d BP%d %d %d inv%d_%d i (by omega) (by omega) j hj"
                         % (hi, l, l, n, n, lo, hi - lo, n, ci))
        else:
            cases.append("  exact checkInvRows_spec %d %d AP%d BP%d %d %d inv%d_%d i (by omega) (by omega) j hj"
                         % (l, l, n, n, lo, hi - lo, n, ci))
    src = f"""import Rq.Thm.Cert.Common
/-!
# A({n}) is invertible over GF(256) — kernel-checked certificate (generated by gencert.py, do not edit)

L = {l} (S = {s}, H = {h}, W = {w}); Table-2 row {idx}. The literal parts below are what the model builds
(checked against the packed mirrors of the model's functions), `AP{n}` is the packed matrix of the
system, `BP{n}` its inverse (computed outside, checked here: `BP{n} · AP{n} = I`).
-/
namespace Rq.Cert
open Rq Rq.C15

set_option maxRecDepth 1000000
-- one kernel fact at a time: parallel elaboration of the facts only adds contention and memory
set_option Elab.async false

/-- the code parameters of K' = {n} -/
def sp{n} : SysParams := {{ kp := {kp}, j := {j}, s := {s}, h := {h}, w := {w}, l := {l}, p := {p}, p1 := {p1} }}

theorem sysParams_{n} : sysParams {n} = some sp{n} :=
  sysParams_of {n} {idx} sp{n} (by decide) (by decide) (by decide +kernel) (by decide +kernel) (by decide +kernel)

/-- the {s} LDPC rows (columns of the ones) -/
def ldpc{n} : Array (List Nat) :=
{wrap(L)}

/-- the G_ENC rows of ISI 0..{n - 1} -/
def enc{n} : List (List Nat) :=
{wrap(E)}

/-- the {kp + s} columns of G_HDPC -/
def cols{n} : List (List Nat) :=
{wrap(C)}

/-- A({n}) as a packed {l} × {l} byte table (row order LDPC, HDPC, G_ENC) -/
def AP{n} : Nat := {hex(ap)}

/-- the inverse of A({n}) over GF(256) as a packed {l} × {l} byte table (computed outside the kernel) -/
def BP{n} : Nat := {hex(bp)}

theorem ldpcRows_{n} : ldpcRows sp{n} = some ldpc{n} := by decide +kernel
theorem encRows_{n} : encRowsP sp{n} (List.range {n}) = some enc{n} := by decide +kernel
theorem hdpcCols_{n} : hdpcColsP {h} {kp + s} = some cols{n} := by decide +kernel
theorem coef_{n} : checkRowsAux {l} AP{n} (coefsP sp{n} ldpc{n} enc{n} cols{n}) 0 = true := by decide +kernel

""" + "\n".join(inv_thms) + f"""

/-- `BP{n} · AP{n} = I` -/
theorem inv_{n} (i : Nat) (hi : i < {l}) (j : Nat) (hj : j < {l}) :
    prodEnt {l} (fun i r => tb8 BP{n} (i * {l} + r)) (fun r j => tb8 AP{n} (r * {l} + j)) i j =
      if i = j then 1 else 0 := by
""" + "\n".join(cases) + f"""

/-- **A({n}) is invertible**: the standard system of K' = {n} is determined -/
theorem determined_{n} : ∃ a, fullSystem sp{n} (List.range {n}) = some a ∧ Determined a :=
  determined_of_cert {n} sp{n} sysParams_{n} ldpc{n} enc{n} cols{n} AP{n} BP{n} (by decide) (by decide +kernel)
    ldpcRows_{n} encRows_{n} hdpcCols_{n} coef_{n} inv_{n}

/-- hence every block of {n} well-formed symbols of any size `t > 0` has a good encoder -/
theorem goodEnc_exists_{n} (t : Nat) (ht : 0 < t) (src : List Sym) (hlen : src.length = {n})
    (hwf : ∀ s ∈ src, WfSym t s) : ∃ e : BlockEnc, e.src = src ∧ GoodEnc e t :=
  goodEnc_of_determined sp{n} sysParams_{n} (by decide) determined_{n} t ht src hlen hwf

end Rq.Cert
"""
    path = os.path.join(lean_dir, "Rq", "Thm", "Cert", "K%d.lean" % n)
    with open(path, "w") as f:
        f.write(src)
    return path


def umbrella(lean_dir, ks):
    imports = "\n".join("import Rq.Thm.Cert.K%d" % k for k in ks)
    cases = "\n".join(
        "  · exact ⟨_, Rq.Cert.sysParams_%d, Rq.Cert.determined_%d⟩" % (k, k) for k in ks)
    names = ", ".join(map(str, ks))
    src = f"""{imports}
/-!
# C06 (continued) — A(K') is invertible: kernel-checked anchors for the smallest block sizes

`∀ K' ∈ Table 2, A(K') invertible` is out of reach of kernel evaluation (dimension up to 57 326) and is
decided per K' by the compiled model over all 477 K' (engine `inter`). Here the statement is
*proved in the kernel* for the smallest extended sizes (see `certified_sizes`), one generated module per K'
(`Rq/Thm/Cert/K<K'>.lean`, generator `gencert.py`, shared lemmas `Rq/Thm/Cert/Common.lean`): a left
inverse B is computed outside and checked inside (B·A = I over GF(256)), so that the hypotheses
`Determined` / `GoodEnc` of the decoder and encoder theorems (C01, C02, C04, C06, C08, C09, C18) are
known to be satisfiable by real encoders — they are not vacuous.
-/
namespace Rq.C06
open Rq

/-- **the certified sizes**: for each of them the standard system exists and is determined -/
theorem certified_sizes : ∀ k ∈ [{names}],
    ∃ sp, sysParams k = some sp ∧ ∃ a, fullSystem sp (List.range k) = some a ∧ Determined a := by
  intro k hk
  simp only [List.mem_cons, List.not_mem_nil, or_false] at hk
  rcases hk with {" | ".join("rfl" for _ in ks)}
{cases}

/-! the names used by the other files and scripts -/

abbrev sp10 := Rq.Cert.sp10
abbrev sp12 := Rq.Cert.sp12
theorem sysParams_10 : sysParams 10 = some sp10 := Rq.Cert.sysParams_10
theorem sysParams_12 : sysParams 12 = some sp12 := Rq.Cert.sysParams_12
theorem determined_10 : ∃ a, fullSystem sp10 (List.range 10) = some a ∧ Determined a := Rq.Cert.determined_10
theorem determined_12 : ∃ a, fullSystem sp12 (List.range 12) = some a ∧ Determined a := Rq.Cert.determined_12

/-- a good encoder exists for every block of 10 one-byte symbols (any symbol size: `Rq.Cert.goodEnc_exists_10`) -/
theorem goodEnc_exists_10 (src : List Sym) (hlen : src.length = 10) (hwf : ∀ s ∈ src, WfSym 1 s) :
    ∃ e : BlockEnc, e.src = src ∧ GoodEnc e 1 := Rq.Cert.goodEnc_exists_10 1 (by decide) src hlen hwf

/-- a good encoder exists for every block of 12 one-byte symbols (any symbol size: `Rq.Cert.goodEnc_exists_12`) -/
theorem goodEnc_exists_12 (src : List Sym) (hlen : src.length = 12) (hwf : ∀ s ∈ src, WfSym 1 s) :
    ∃ e : BlockEnc, e.src = src ∧ GoodEnc e 1 := Rq.Cert.goodEnc_exists_12 1 (by decide) src hlen hwf

end Rq.C06
"""
    path = os.path.join(lean_dir, "Rq", "Thm", "C06c.lean")
    with open(path, "w") as f:
        f.write(src)
    return path


def main():
    args = sys.argv[1:]
    lean_dir = "/verif/lean"
    chunk = None
    only_umbrella = False
    no_umbrella = False
    ks = []
    while args:
        a = args.pop(0)
        if a == "--lean-dir":
            lean_dir = args.pop(0)
        elif a == "--chunk":
            chunk = int(args.pop(0))
        elif a == "--umbrella":
            only_umbrella = True
        elif a == "--no-umbrella":
            no_umbrella = True
        else:
            ks.append(int(a))
    if not ks:
        raise SystemExit(__doc__)
    if not no_umbrella and (10 not in ks or 12 not in ks):
        raise SystemExit("keep K' = 10 and 12 in the list (the umbrella re-exports their theorems)")
    if not only_umbrella:
        for k in ks:
            print("wrote", gen(lean_dir, k, chunk))
    if not no_umbrella:
        print("wrote", umbrella(lean_dir, ks))


if __name__ == "__main__":
    main()
