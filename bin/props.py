"""Per-property configuration of bin/check: Lean theorem modules, correspondence engines
(engine name, harness profile), and the per-property parts of the trusted base."""

RFC_TABLES = "the pinned crate's tables are assumed to be RFC 6330's (no copy of the RFC offline); theorems cross-examine them (primality, monotonicity, field laws)"

PROPS = {
    "C13": {
        "thm_modules": ["Rq.Thm.C13"],
        "engines": [("wire", "release")],
        "modelled": ["Vec<u8>/array plumbing of base.rs (extend_from_slice, Vec::from)"],
        "assumptions": ["bytes are modelled as naturals < 256; u8/u16/u32/u64 casts of base.rs written as % and /"],
    },
    "C19": {
        "thm_modules": ["Rq.Thm.C19"],
        "engines": [("otinew", "release"), ("otinew", "debug")],
        "modelled": ["assert!/assert_eq! as Option.none"],
        "assumptions": ["arguments range over their Rust types (u64, u16, u8, u16, u8); positive T, Z, Al as the property states"],
    },
}
