"""Per-property configuration of bin/check: Lean theorem modules, correspondence engines
(engine name, harness profile), and the per-property parts of the trusted base."""

RFC_TABLES = "the pinned crate's tables are assumed to be RFC 6330's (no copy of the RFC offline); theorems cross-examine them (primality, monotonicity, field laws)"

PROPS = {
    "C10": {
        "thm_modules": ["Rq.Thm.C10"],
        "engines": [("octet", "release"), ("octet", "debug")],
        "modelled": ["`unsafe get_unchecked` look-ups as total look-ups plus the index-safety theorem exp_index_safe"],
        "assumptions": [RFC_TABLES, "OCT_EXP/OCT_LOG/OCTET_MUL/nibble tables are read from the compiled crate by the translator on every run; the correspondence is exhaustive (every row of every operation and table), not sampled"],
        "explanation": "exhaustive: all 256^2 pairs of mul/div/add, fma for 6 accumulators x all pairs, all 258 alpha exponents, all three derived tables; 256^3 triples for associativity/distributivity are covered by the Field instance (theorem) and replayed directly on the implementation",
    },
    "C15": {
        "thm_modules": ["Rq.Thm.C15", "Rq.Thm.C15b", "Rq.Thm.Tables"],
        "engines": [("params", "release"), ("params", "debug"), ("tables", "release")],
        "modelled": ["u32 arithmetic as naturals with explicit wrap (release) / error (checked build)", "the `for`/`while` loops of enc_indices as fuel recursion (termination is theorem skipPi_terminates)"],
        "assumptions": [RFC_TABLES, "systematic constants: exhaustive over K = 0..56404; tuples: boundary-directed + random X per sampled Table-2 row, in a checked and an unchecked build"],
    },
    "C11": {
        "thm_modules": ["Rq.Thm.C11"],
        "engines": [("kernels", "release"), ("kernels", "debug")],
        "modelled": ["CPU instruction semantics (pshufb per 128-bit lane, srli_epi64, and/xor, masked move, bit extraction) modelled byte-wise from the vendor description", "alignment does not exist in the model (unaligned loads/stores only); swept by the correspondence run", "NEON kernels are not compiled for this host"],
        "assumptions": ["runtime half (the silicon agrees with the modelled intrinsics; every alignment) is observed by the correspondence run on every path the host offers, not proved: labelled partial in DESIGN.md"],
    },
    "C12": {
        "thm_modules": ["Rq.Thm.C12"],
        "engines": [("kernels", "release"), ("kernels", "debug"), ("slab", "release"), ("slab", "debug")],
        "modelled": ["accesses are (buffer, offset, width) triples produced by the same loop skeletons as the kernels; that the Rust pointer expressions are these offsets is validated by guard pages, not proved"],
        "assumptions": ["every kernel operand of the correspondence run is placed flush against PROT_NONE guard pages (end-flush / start-flush / 64 offsets); a fault is reported with the exact case"],
    },
    "C14": {
        "thm_modules": ["Rq.Thm.C14"],
        "engines": [("genparams", "release"), ("genparams", "debug")],
        "modelled": ["u64/u32/u16/u8 casts of generate_encoding_parameters as explicit % on naturals", "the closure kl and the N search as a reversed find? and a fuel recursion"],
        "assumptions": [RFC_TABLES, "domain of the theorem = the property's domain (InDomain): 1 <= P < 65536, 1 <= F <= 56403*255*T, WS < 2^64, KL(Nmax) defined, Z <= 255"],
    },
    "C05": {
        "thm_modules": ["Rq.Thm.C05"],
        "engines": [("partition", "release"), ("object", "release"), ("object", "debug")],
        "modelled": ["Vec/slice plumbing (extend_from_slice, chunks, copy_from_slice) as list take/drop/append", "the decoder's write pattern as a list of (position, byte) writes"],
        "assumptions": ["object-level inversion through the real decoder is part of the correspondence run (all source packets, shuffled) and of C01's theorem"],
    },
    "C17": {
        "thm_modules": ["Rq.Thm.C17"],
        "engines": [("cache", "release"), ("cache", "debug")],
        "modelled": ["Mutex = mutual exclusion: each of the two critical sections is one atomic step; lock poisoning ignored", "HashMap as an association list with distinct keys, VecDeque as a list, Arc<Plan> as the plan value", "plan generation as a pure function gen : K -> Plan"],
        "assumptions": ["real threads are parked at the yield hook between the critical sections and released one step at a time along seeded schedules (all 20 interleavings of two racing requests, eviction races at capacity-1/capacity/capacity+1, lost race followed by > capacity sizes, random schedules), plus a free-running 8-thread soak"],
    },
    "C09": {
        "thm_modules": ["Rq.Thm.C09"],
        "engines": [("linear", "release"), ("plan", "release"), ("slab", "release"), ("kernels", "release")],
        "modelled": ["SymbolSlab as an array of symbols + optional logical->physical mapping (the contiguous Vec<u8> and the paired borrow are C12's subject)"],
        "assumptions": ["symbol size is a parameter of every theorem; the metamorphic relations are also checked directly on the implementation for every residue of T modulo 64 up to 4*64+6"],
    },
    "C18": {
        "thm_modules": ["Rq.Thm.C18"],
        "engines": [("repair", "release"), ("repair", "debug"), ("object", "release")],
        "modelled": ["u32 additions of repair_packets with explicit overflow / the 24-bit assert of PayloadId::new"],
        "assumptions": ["solver_irrelevant carries the explicit hypothesis that the standard system of this block is consistent (true whenever A(K') is invertible; evaluated for all 477 K' by C06's engine, not a kernel theorem)"],
    },
    "C13": {
        "thm_modules": ["Rq.Thm.C13"],
        "engines": [("wire", "release")],
        "modelled": ["Vec<u8>/array plumbing of base.rs (extend_from_slice, Vec::from)"],
        "assumptions": ["bytes are modelled as naturals < 256; u8/u16/u32/u64 casts of base.rs written as % and /"],
    },
    "C19": {
        "thm_modules": ["Rq.Thm.C19"],
        "engines": [("otinew", "release"), ("otinew", "debug")],
        "modelled": ["assert!/assert_eq! as Option.none"],
        "assumptions": ["arguments range over their Rust types (u64, u16, u8, u16, u8); positive T, Z, Al as the property states"],
    },
}

# --- temporary engine-only entries (theorem modules follow)
for _p, _e in {"C01": ["decblk", "decobj"], "C02": ["decblk", "overhead"], "C04": ["cm", "enc", "params"], "C05": ["partition", "object"],
               "C06": ["inter", "plan"], "C08": ["decblk", "decobj"], "C18": ["repair", "object"], "C14": ["genparams"], "C15": ["params"]}.items():
    PROPS.setdefault(_p, {"thm_modules": [], "engines": [(e, "release") for e in _e]})
PROPS.setdefault("C03", {"thm_modules": [], "engines": [("overhead", "release")], "level": "other"})
PROPS.setdefault("C16", {"thm_modules": [], "engines": [("matrices", "release"), ("matrices", "debug")]})
PROPS.setdefault("C07", {"thm_modules": [], "engines": [("configs", "release"), ("configs", "debug")], "nostd_workload": True})
