"""Per-property configuration of bin/check: Lean theorem modules, correspondence engines
(engine name, harness profile), and the per-property parts of the trusted base."""

RFC_TABLES = "the pinned crate's tables are assumed to be RFC 6330's (no copy of the RFC offline); theorems cross-examine them (primality, monotonicity, field laws)"

PROPS = {
    "C10": {
        "thm_modules": ["Rq.Thm.C10"],
        "engines": [("octet", "release"), ("octet", "debug")],
        "modelled": ["`unsafe get_unchecked` look-ups as total look-ups plus the index-safety theorem exp_index_safe"],
        "assumptions": [RFC_TABLES, "OCT_EXP/OCT_LOG/OCTET_MUL/nibble tables are read from the compiled crate by the translator on every run; the correspondence is exhaustive (every row of every operation and table), not sampled"],
        "explanation": "exhaustive: all 256^2 pairs of mul/div/add, fma for 6 accumulators x all pairs, all 258 alpha exponents, all three derived tables; 256^3 triples for associativity/distributivity are covered by the Field instance (theorem) and replayed directly on the implementation",
    },
    "C15": {
        "thm_modules": ["Rq.Thm.C15", "Rq.Thm.C15b", "Rq.Thm.Tables", "Rq.Thm.Src", "Rq.Thm.SrcCor"],
        "engines": [("params", "release"), ("params", "debug"), ("tables", "release")],
        "modelled": ["u32 arithmetic as naturals with explicit wrap (release) / error (checked build)", "the `for`/`while` loops of enc_indices as fuel recursion (termination is theorem skipPi_terminates)"],
        "assumptions": [RFC_TABLES, "systematic constants: exhaustive over K = 0..56404; tuples: boundary-directed + random X per sampled Table-2 row, in a checked and an unchecked build"],
    },
    "C11": {
        "thm_modules": ["Rq.Thm.C11", "Rq.Thm.C11b"],
        "engines": [("kernels", "release"), ("kernels", "debug"), ("workload", "release"), ("workload", "debug"), ("slab", "release")],
        "nostd_workload": True,
        "modelled": ["CPU instruction semantics (pshufb per 128-bit lane, srli_epi64, and/xor, masked move, bit extraction) modelled byte-wise from the vendor description", "alignment does not exist in the model (unaligned loads/stores only); swept by the correspondence run", "NEON kernels are not compiled for this host"],
        "assumptions": ["runtime half (the silicon agrees with the modelled intrinsics; every alignment) is observed by the correspondence run on every path the host offers, not proved: labelled partial in DESIGN.md"],
    },
    "C12": {
        "thm_modules": ["Rq.Thm.C12", "Rq.Thm.C12b"],
        "engines": [("kernels", "release"), ("kernels", "debug"), ("slab", "release"), ("slab", "debug"), ("decblk", "release"), ("fence", "release"), ("fence", "debug")],
        "modelled": ["accesses are (buffer, offset, width) triples produced by the same loop skeletons as the kernels; that the Rust pointer expressions are these offsets is validated by guard pages, not proved"],
        "assumptions": ["every kernel operand of the correspondence run is placed flush against PROT_NONE guard pages (end-flush / start-flush / 64 offsets); a fault is reported with the exact case"],
    },
    "C14": {
        "thm_modules": ["Rq.Thm.C14", "Rq.Thm.C02d", "Rq.Thm.Src"],
        "engines": [("genparams", "release"), ("genparams", "debug"), ("workload", "release"), ("workload", "debug")],
        "nostd_workload": True,
        "modelled": ["u64/u32/u16/u8 casts of generate_encoding_parameters as explicit % on naturals", "the closure kl and the N search as a reversed find? and a fuel recursion"],
        "assumptions": [RFC_TABLES, "domain of the theorem = the property's domain (InDomain): 1 <= P < 65536, 1 <= F <= 56403*255*T, WS < 2^64, KL(Nmax) defined, Z <= 255"],
    },
    "C05": {
        "thm_modules": ["Rq.Thm.C05", "Rq.Thm.Src"],
        "engines": [("partition", "release"), ("object", "release"), ("object", "debug"), ("decblk", "release")],
        "modelled": ["Vec/slice plumbing (extend_from_slice, chunks, copy_from_slice) as list take/drop/append", "the decoder's write pattern as a list of (position, byte) writes"],
        "assumptions": ["object-level inversion through the real decoder is part of the correspondence run (all source packets, shuffled) and of C01's theorem"],
    },
    "C17": {
        "thm_modules": ["Rq.Thm.C17"],
        "engines": [("cache", "release"), ("cache", "debug"), ("repair", "release")],
        "modelled": ["Mutex = mutual exclusion: each of the two critical sections is one atomic step; lock poisoning ignored", "HashMap as an association list with distinct keys, VecDeque as a list, Arc<Plan> as the plan value", "plan generation as a pure function gen : K -> Plan"],
        "assumptions": ["real threads are parked at the yield hook between the critical sections and released one step at a time along seeded schedules (all 20 interleavings of two racing requests, eviction races at capacity-1/capacity/capacity+1, lost race followed by > capacity sizes, random schedules), plus a free-running 8-thread soak"],
    },
    "C09": {
        "thm_modules": ["Rq.Thm.C09"],
        "engines": [("linear", "release"), ("plan", "release"), ("slab", "release"), ("kernels", "release")],
        "modelled": ["SymbolSlab as an array of symbols + optional logical->physical mapping (the contiguous Vec<u8> and the paired borrow are C12's subject)"],
        "assumptions": ["symbol size is a parameter of every theorem; the metamorphic relations are also checked directly on the implementation for every residue of T modulo 64 up to 4*64+6"],
    },
    "C18": {
        "thm_modules": ["Rq.Thm.C18"],
        "engines": [("repair", "release"), ("repair", "debug"), ("object", "release")],
        "modelled": ["u32 additions of repair_packets with explicit overflow / the 24-bit assert of PayloadId::new"],
        "assumptions": ["solver_irrelevant carries the explicit hypothesis that the standard system of this block is consistent (true whenever A(K') is invertible; evaluated for all 477 K' by C06's engine, not a kernel theorem)"],
    },
    "C13": {
        "thm_modules": ["Rq.Thm.C13", "Rq.Thm.Src", "Rq.Thm.SrcCor"],
        "engines": [("wire", "release"), ("workload", "release"), ("workload", "debug")],
        "nostd_workload": True,
        "modelled": ["Vec<u8>/array plumbing of base.rs (extend_from_slice, Vec::from)"],
        "assumptions": ["bytes are modelled as naturals < 256; u8/u16/u32/u64 casts of base.rs written as % and /"],
    },
    "C19": {
        "thm_modules": ["Rq.Thm.C19", "Rq.Thm.Src", "Rq.Thm.SrcCor"],
        "engines": [("otinew", "release"), ("otinew", "debug"), ("workload", "release"), ("workload", "debug")],
        "nostd_workload": True,
        "modelled": ["assert!/assert_eq! as Option.none"],
        "assumptions": ["arguments range over their Rust types (u64, u16, u8, u16, u8); positive T, Z, Al as the property states"],
    },
}


SOLVER = "the five-phase solver of pi_solver.rs is modelled op for op (Model/PiSolver.lean, both back-ends, incl. a model of the standard library's unstable sort that fixes the sparse column-index order) and tied to the Rust solver by comparing recorded operation vectors (engine `solver`); it is NOT proved to meet SolverSpec: every decoder/encoder theorem is for an arbitrary solver meeting SolverSpec; the verified Gauss-Jordan oracle IS proved to meet it (Thm/C02d oracle_spec, so the specification is satisfiable and every theorem is instantiated for that concrete solver, *_oracle), every solver meeting it gives the oracle's answers (decoder_agrees_with_oracle), and that the Rust solver does is established by correspondence against that oracle and by the per-run certificate certOk (C02c)"
INVERT = "that A(K') is invertible for each of the 477 K' (consistency of the encoder's own system) is an explicit hypothesis of the object-level theorems; it is evaluated for all 477 K' by the `inter` engine, not by the kernel"

PROPS.update({
    "C01": {
        "thm_modules": ["Rq.Thm.C01", "Rq.Thm.C02", "Rq.Thm.C02d"],
        "engines": [("decblk", "release"), ("decblk", "debug"), ("decobj", "release"), ("decobj", "debug"), ("fastpath", "release"), ("solver", "release")],
        "modelled": [SOLVER],
        "assumptions": [INVERT, "packets are genuine packets of one object (an erasure code makes no promise on corrupted payloads)"],
    },
    "C02": {
        "thm_modules": ["Rq.Thm.C02", "Rq.Thm.C02b", "Rq.Thm.C02c", "Rq.Thm.C02d"],
        "engines": [("decblk", "release"), ("decblk", "debug"), ("overhead", "release"), ("fastpath", "release"), ("fastpath", "debug"), ("solver", "release")],
        "modelled": [SOLVER],
        "assumptions": ["the counter generator_too_weak_singular_sets is raised when fewer than 10 certified singular sets were seen in a run"],
    },
    "C08": {
        "serde_workload": True,
        "thm_modules": ["Rq.Thm.C08", "Rq.Thm.C02", "Rq.Thm.C02d"],
        "engines": [("decblk", "release"), ("decobj", "release"), ("decobj", "debug"), ("decblk", "debug")],
        "modelled": [SOLVER, "#[derive(Clone)] copies the whole state (the model is a value; cloned decoders are compared by the correspondence run)"],
        "assumptions": ["packet sets are sets of genuine packets of one object"],
    },
    "C04": {
        "serde_workload": True,
        "thm_modules": ["Rq.Thm.C04", "Rq.Thm.Tables", "Rq.Thm.C15", "Rq.Thm.Src"],
        "engines": [("cm", "release"), ("cm", "debug"), ("enc", "release"), ("params", "release"), ("tables", "release")],
        "modelled": [SOLVER],
        "assumptions": [RFC_TABLES, INVERT, "the Spec (entry-wise matrix, MT x GAMMA as a naive sum, Enc/Tuple/Rand/Deg) is written from RFC 6330 5.3; no other RaptorQ implementation is available offline to cross-check it"],
    },
    "C06": {
        "thm_modules": ["Rq.Thm.C06", "Rq.Thm.C06b", "Rq.Thm.C06c", "Rq.Thm.Cert.Common", "Rq.Thm.C02d", "Rq.Thm.Tables"],
        "engines": [("inter", "release"), ("plan", "release"), ("plan", "debug"), ("tables", "release"), ("solver", "release"), ("object", "release"), ("linear", "release"), ("cm", "release")],
        "modelled": [SOLVER],
        "assumptions": [INVERT, "plan certificates (identity-block replay) are evaluated by the compiled model driver for K <= 130 (quick) / 400 (thorough): compiled Lean evaluation, not a kernel proof; all 477 K' are covered by checking Rust's intermediate symbols against every row of the Spec system"],
    },
    "C03": {
        "thm_modules": ["Rq.Thm.C02"],
        "engines": [("overhead", "release"), ("solver", "release"), ("decobj", "release")],
        "level": "other",
        "explanation": "What is proved: the decoder fails exactly when the RFC 6330 constraint matrix of the received set is rank deficient (C02.attempt_iff, few_rows_not_determined), so its failure probability over random (K+h)-subsets equals that of the RFC code. What is not provable: the numerical bounds (below 1 percent, 0.01 percent, 0.001 percent), an empirical property of the code design; supported by a seeded Monte-Carlo run in which every failure is certified singular by the oracle, with an exact Clopper-Pearson lower bound at confidence 1-1e-9 as the only alarm.",
        "modelled": [SOLVER],
        "assumptions": ["the advertised probabilities themselves are assumed, not proved"],
    },
})
PROPS.update({
    "C16": {
        "thm_modules": ["Rq.Thm.C16", "Rq.Thm.C16s", "Rq.Thm.C16r"],
        "engines": [("matrices", "release"), ("matrices", "debug")],
        "modelled": ["Dense and Sparse: code-shaped Lean models (Model/BitMat.lean, Model/Sparse.lean); refinement to the bit array proved for every operation of both (Thm/C16, Thm/C16s) and, for Dense, for every admissible sequence", "Vec<u64>/Vec<u16> storage as arrays/lists of naturals; the ImmutableListMap column index as an array of row lists (order canonicalised)"],
        "assumptions": ["preconditions = the explicit assert!/unimplemented! of the code, the crate's debug_indexed_column_valid rule, and 'undefined left of start_col'; tracked on a shadow array by the generator", "count_ones(row, w, w) (empty range at the very end) is outside the claimed interface"],
    },
    "C07": {
        "serde_workload": True,
        "thm_modules": ["Rq.Thm.C07", "Rq.Thm.C02d"],
        "engines": [("configs", "release"), ("configs", "debug"), ("kernels", "release"), ("solver", "release"), ("solver", "debug"), ("matrices", "release"), ("repair", "release")],
        "nostd_workload": True,
        "modelled": [SOLVER, "optimised vs debug-assertion code generation, std vs no_std, and the release-only errata-11 column skipping are not modelled: covered by the correspondence run only (partial)"],
        "assumptions": ["four builds (std/no_std x checked/unchecked) run one public-API workload and are compared textually; inside the std harness: dispatch ceiling x sparse threshold x plan mode grid against the canonical result, which is tied to the model"],
    },
})
