ENGINES = [
    {"name": "E1 arithmetic", "path": "lean/Rq/Model/GF256.lean, Kernels.lean; harness/src/e1.rs", "serves_properties": ["C10", "C11", "C12"], "kind_free_text": "Lean model + theorems; exhaustive / swept correspondence"},
    {"name": "E2 parameters", "path": "lean/Rq/Model/Params.lean, Wire.lean; harness/src/e2.rs", "serves_properties": ["C05", "C13", "C14", "C15", "C19"], "kind_free_text": "Lean model + theorems; boundary-directed correspondence in checked and unchecked builds"},
    {"name": "E3 codec", "path": "lean/Rq/Model/Codec*.lean; harness/src/e3.rs", "serves_properties": ["C01", "C02", "C03", "C04", "C06", "C07", "C08", "C09", "C18"], "kind_free_text": "Lean model + theorems; random objects / erasure patterns / histories"},
    {"name": "E4 matrix", "path": "lean/Rq/Model/BitMat.lean; harness/src/e4.rs", "serves_properties": ["C16"], "kind_free_text": "refinement of two back-ends to one bit array"},
    {"name": "E5 cache", "path": "lean/Rq/Model/Cache.lean; harness/src/e5.rs", "serves_properties": ["C17"], "kind_free_text": "invariant over all interleavings; real threads driven through schedules"},
]

PENDING = "not yet built in this round: model, theorems and correspondence for this property are scheduled (DESIGN.md section 9); the technique applies, the check does not exist yet"

TRUST = "Trusted: Lean kernel; axioms audited per theorem on every run (only propext, Classical.choice, Quot.sound); translator (crate tables -> Gen/Tables.lean); correspondence harness + line protocol + generator; frozen RFC tables assumed to be the RFC's. "

CHECKS = [
    {"property_id": "C13", "engine": "E2 parameters", "design_ref": "DESIGN.md 7/C13",
     "text": "Lean theorems over all representable values (no bound): round trip, exact RFC byte layout (pins endianness and field order), re-serialisation of every parsed buffer, refusal of short buffers; the model is tied to base.rs by a correspondence run over boundary and random values in both directions.",
     "note": TRUST + "Modelled: Vec/array plumbing.",
     "technique": "Lean 4 theorems (simp/omega) on a hand-written model + differential correspondence"},
    {"property_id": "C19", "engine": "E2 parameters", "design_ref": "DESIGN.md 7/C19",
     "text": "Lean theorem: the (repaired) constructor accepts exactly the parameter sets within the documented limits, for all F (no bound), T, Z, N, Al, and reports its inputs; witness theorem for the defect of the pinned code (F=2^32+5) and a theorem that the old code had no other defect class. Correspondence in checked and unchecked builds aimed at every limit +-1 and at quotients beyond 2^32.",
     "note": TRUST + "The defect found was repaired by a fix: commit (KNOWN_FINDINGS.txt).",
     "technique": "Lean 4 theorem (case split + omega) + differential correspondence against the model and an exact-arithmetic oracle"},
    {"property_id": "C10", "engine": "E1 arithmetic", "design_ref": "DESIGN.md 7/C10",
     "text": "Lean: GF256 built from the crate's regenerated OCT_EXP/OCT_LOG is a Mathlib Field (so all 256^3 triples of associativity/distributivity hold by algebra); every product equals carry-less polynomial multiplication mod 0x11D; division, fma, alpha(i)=2^i; the OCTET_MUL and nibble tables dumped from the compiled crate equal the field products (all 65 536 + 16 384 entries, kernel evaluation). The correspondence is exhaustive (every row of every operation and table), not sampled.",
     "note": TRUST + "Table facts are decided by kernel evaluation (decide +kernel, no native_decide).",
     "technique": "Lean 4: kernel-evaluated table facts lifted by algebra to a Field instance + exhaustive correspondence"},
    {"property_id": "C15", "engine": "E2 parameters", "design_ref": "DESIGN.md 7/C15",
     "text": "Lean theorems for every K <= 56403 and every internal symbol id (no bound): K' is the least table size >= K; S, W, P1 prime (Nat.Prime), P1 least prime >= P, B >= 1, P >= H >= 2, L < 65536; Rand/Deg/Tuple equal the RFC definitions and lie in range; every enc index < L, the PI skip loop terminates (P1 prime); no panic in a checked build; witness theorems for the two overflow inputs of the pinned code. Tables equal the frozen RFC copy. Correspondence: exhaustive over K, boundary-directed tuples, checked and unchecked builds.",
     "note": TRUST + "u32 arithmetic modelled with explicit wrap / error.",
     "technique": "Lean 4 theorems (kernel-checked per-row table facts + number theory via ZMod) + differential correspondence in two build profiles"},
    {"property_id": "C14", "engine": "E2 parameters", "design_ref": "DESIGN.md 7/C14",
     "text": "Lean theorem: on the property's whole domain the (repaired) derivation returns the RFC 4.3 values (T largest multiple of Al, Z least block count within KL(Nmax), N least sub-block count that fits), Z is monotone in the memory budget, and the result passes the constructor's limits with Z <= Kt, 1 <= N <= T/Al; witnesses for the two defects of the pinned code. Correspondence aimed at every K' threshold +-1, budgets over the whole u64 range, checked and unchecked builds.",
     "note": TRUST + "Both defects repaired by fix: commits.",
     "technique": "Lean 4 theorems (find?/fuel-recursion specs, omega) + differential correspondence against model and exact-arithmetic RFC oracle"},
    {"property_id": "C05", "engine": "E2 parameters", "design_ref": "DESIGN.md 7/C05",
     "text": "Lean theorems for all valid (F, T, Z, N, Al) and all data: Partition laws; block ranges contiguous from 0 to Kt*T with KL/KS symbols; only the last block padded, with zeros, by < T bytes; symbols cut sub-block by sub-block as RFC 4.4.1.2 prescribes, each of T bytes; unpack(create(block)) = block; packet numbering. Correspondence: object packets vs the model and vs an independent RFC layout oracle, decoder inversion from shuffled source packets.",
     "note": TRUST + "Modelled: slice plumbing as list take/drop.",
     "technique": "Lean 4 theorems (list/index induction) + differential correspondence"},
    {"property_id": "C11", "engine": "E1 arithmetic", "design_ref": "DESIGN.md 7/C11",
     "text": "Lean theorems for every kernel (add, mul, fma, binary fma) on every path (portable, SSSE3, AVX2, AVX-512), every length (no bound), every scalar and contents: the head/body/u64-tail/byte-tail skeleton touches every index exactly once and the lane functions (nibble split by mask and 64-bit shift, pshufb, bit unpack) compute the field product, so the kernel equals the element-wise GF(256) operation. Partial: intrinsic semantics are modelled; that the silicon agrees, and all 64 alignments, are observed by the correspondence run on every path of this host (NEON not compiled here).",
     "note": TRUST + "Modelled not verified: CPU instruction semantics; alignment.",
     "technique": "Lean 4 theorems on a control-skeleton + lane model of the kernels + swept correspondence (lengths x placements x scalars x paths)"},
    {"property_id": "C12", "engine": "E1 arithmetic", "design_ref": "DESIGN.md 7/C12",
     "text": "Lean theorems: every load/store offset the kernel skeletons compute lies inside its buffer for every length (incl. the u32/u64 reinterpretation of packed words), the binary kernels' remainder assert cannot fire, unchecked table indices are in range. Partial: that the Rust pointer expressions are these offsets is validated by running every kernel with operands flush against PROT_NONE guard pages (a fault is reported with its case) and by neighbour-symbol checks on the slab, not proved.",
     "note": TRUST + "Runtime monitoring supports the index model; it is not part of the proof.",
     "technique": "Lean 4 theorems on access lists of the kernel skeletons + guard-page monitored correspondence"},
    {"property_id": "C17", "engine": "E5 cache", "design_ref": "DESIGN.md 7/C17",
     "text": "Lean theorems over every schedule (any interleaving of the lookup and insert critical sections, any number of threads and requests): the map and the FIFO queue hold the same distinct keys, at most `capacity` plans, every cached plan and every returned plan is the plan of its own K (transparency), eviction is FIFO. Correspondence: real threads parked at the hook and stepped along seeded schedules; snapshots compared after every step; free-running soak.",
     "note": TRUST + "Modelled: Mutex as atomic critical sections; poisoning ignored.",
     "technique": "Lean 4 invariant proof by induction over schedules + scheduled real-thread correspondence"},
]

CHECKS += [
    {"property_id": "C09", "engine": "E3 codec", "design_ref": "DESIGN.md 7/C09",
     "text": "Lean theorems, symbol size a parameter (nothing per size): Enc is additive, homogeneous and column-wise; plan replay on the slab is additive, homogeneous and acts on every byte column independently (any op list); the constraint system is linear and column-wise, hence (uniqueness) intermediate symbols and every repair packet are additive in the data and byte j of a packet at size t is the one-byte packet of byte column j. The same relations are checked on the implementation for every residue of T mod 64, plus model tie of plan replay and slab ops.",
     "note": TRUST + "Stride/remainder errors inside kernels are C11's theorems.",
     "technique": "Lean 4 theorems (induction over op lists, pointwise list reasoning, field laws) + metamorphic and differential correspondence"},
    {"property_id": "C18", "engine": "E3 codec", "design_ref": "DESIGN.md 7/C18",
     "text": "Lean theorems: a repair window equals the single-packet requests, overlapping windows agree, packet i has ESI K+s+i and internal id K'+s+i, a non-empty window is produced exactly when K+s+n <= 2^24, the object packet list is block by block ESIs 0..K-1 then K..K+r-1 with SBN = block index and all ids distinct, and two solvers meeting the solver specification yield the same encoder (plans interchangeable). Correspondence: windows at the 24-bit limit and straddling wrap points of the tuple generator, plan pairs, object lists.",
     "note": TRUST + "solver_irrelevant assumes the block's standard system is consistent (see C06).",
     "technique": "Lean 4 theorems (mapM/range reasoning) + differential correspondence"},
]

NOT_APPLICABLE = [{"property_id": p, "reason": PENDING} for p in
                  ["C01", "C02", "C03", "C04", "C06", "C07", "C08", "C16"]]
