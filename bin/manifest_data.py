ENGINES = [
    {"name": "E1 arithmetic", "path": "lean/Rq/Model/GF256.lean, Kernels.lean; harness/src/e1.rs", "serves_properties": ["C10", "C11", "C12"], "kind_free_text": "Lean model + theorems; exhaustive / swept correspondence"},
    {"name": "E2 parameters", "path": "lean/Rq/Model/Params.lean, Wire.lean; harness/src/e2.rs", "serves_properties": ["C05", "C13", "C14", "C15", "C19"], "kind_free_text": "Lean model + theorems; boundary-directed correspondence in checked and unchecked builds"},
    {"name": "E3 codec", "path": "lean/Rq/Model/Codec*.lean; harness/src/e3.rs", "serves_properties": ["C01", "C02", "C03", "C04", "C06", "C07", "C08", "C09", "C18"], "kind_free_text": "Lean model + theorems; random objects / erasure patterns / histories"},
    {"name": "E4 matrix", "path": "lean/Rq/Model/BitMat.lean; harness/src/e4.rs", "serves_properties": ["C16"], "kind_free_text": "refinement of two back-ends to one bit array"},
    {"name": "E5 cache", "path": "lean/Rq/Model/Cache.lean; harness/src/e5.rs", "serves_properties": ["C17"], "kind_free_text": "invariant over all interleavings; real threads driven through schedules"},
]

PENDING = "not yet built in this round: model, theorems and correspondence for this property are scheduled (DESIGN.md section 9); the technique applies, the check does not exist yet"

CHECKS = [
    {"property_id": "C13", "engine": "E2 parameters", "design_ref": "DESIGN.md 7/C13",
     "text": "Lean theorems over all representable values (no bound): round trip, exact RFC byte layout (pins endianness and field order), re-serialisation of every parsed buffer, refusal of short buffers; the model is tied to base.rs by a correspondence run over boundary and random values in both directions.",
     "note": "Trusted: Lean kernel, audited axioms (propext, Classical.choice, Quot.sound), the correspondence harness and its generator. Modelled: Vec/array plumbing.",
     "technique": "Lean 4 theorems (simp/omega) on a hand-written model + differential correspondence"},
    {"property_id": "C19", "engine": "E2 parameters", "design_ref": "DESIGN.md 7/C19",
     "text": "Lean theorem: the (repaired) constructor accepts exactly the parameter sets within the documented limits, for all F (no bound), T, Z, N, Al, and reports its inputs; witness theorem for the defect of the pinned code (F=2^32+5) and a theorem that the old code had no other defect class. Correspondence in checked and unchecked builds aimed at every limit +-1 and at quotients beyond 2^32.",
     "note": "Trusted: Lean kernel, audited axioms, correspondence harness. The defect found was repaired by a fix: commit (KNOWN_FINDINGS.txt).",
     "technique": "Lean 4 theorem (case split + omega) + differential correspondence against the model and an exact-arithmetic oracle"},
]

NOT_APPLICABLE = [{"property_id": p, "reason": PENDING} for p in
                  ["C01", "C02", "C03", "C04", "C05", "C06", "C07", "C08", "C09", "C10", "C11", "C12", "C14", "C15", "C16", "C17", "C18"]]
