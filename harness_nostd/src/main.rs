#[path = "../../harness/src/workload.rs"]
mod workload;

fn main() {
    let args: Vec<String> = std::env::args().collect();
    let quick = args.get(1).map(|s| s.as_str()) != Some("thorough");
    let seed: u64 = args.get(2).and_then(|s| s.parse().ok()).unwrap_or(1);
    for l in workload::run(seed, quick) {
        println!("{l}");
    }
}
