// Engine E1: octet arithmetic (C10), bulk kernels (C11), memory safety monitoring (C12).
use crate::util::*;
use raptorq::Octet;
use raptorq::verif as rq;

// the property's own oracle: carry-less multiplication modulo x^8+x^4+x^3+x^2+1
pub fn pmul(a: u8, b: u8) -> u8 {
    let mut acc: u16 = 0;
    let mut aa = a as u16;
    for k in 0..8 {
        if (b >> k) & 1 == 1 {
            acc ^= aa;
        }
        aa <<= 1;
        if aa & 0x100 != 0 {
            aa ^= 0x11D;
        }
    }
    acc as u8
}

pub fn pinv(a: u8) -> u8 {
    (1..=255u8).find(|x| pmul(a, *x) == 1).unwrap_or(0)
}

// ---------------------------------------------------------------- C10 (exhaustive)
pub fn octet(rec: &mut Recorder, _rng: &mut Rng, _thorough: bool) {
    for a in 0..=255u8 {
        // multiplication row
        let r = guarded(move || (0..=255u8).map(|b| (Octet::new(a) * Octet::new(b)).byte()).collect::<Vec<u8>>());
        match &r {
            Ok(row) => {
                for b in 0..=255u8 {
                    if row[b as usize] != pmul(a, b) {
                        rec.impl_violation(format!("Octet {a} * {b} = {}, polynomial product is {}", row[b as usize], pmul(a, b)));
                    }
                    if (Octet::new(a) + Octet::new(b)).byte() != a ^ b {
                        rec.impl_violation(format!("Octet {a} + {b} is not xor"));
                    }
                }
            }
            Err(_) => rec.impl_violation(format!("Octet multiplication panics in row {a}")),
        }
        rec.put(&format!("gfrow mul {a}"), &r.map(|v| hex(&v)).unwrap_or("err".into()));
        // division row (b = 0 separately: must be refused)
        let mut row = vec![0u8; 256];
        for b in 1..=255u8 {
            match guarded(move || (Octet::new(a) / Octet::new(b)).byte()) {
                Ok(q) => {
                    row[b as usize] = q;
                    if q != pmul(a, pinv(b)) {
                        rec.impl_violation(format!("Octet {a} / {b} = {q}, field quotient is {}", pmul(a, pinv(b))));
                    }
                }
                Err(_) => {
                    row[b as usize] = 0;
                    rec.impl_violation(format!("Octet {a} / {b} panics"));
                }
            }
        }
        rec.put(&format!("gfrow div {a}"), &hex(&row));
        let r0 = guarded(move || (Octet::new(a) / Octet::new(0)).byte());
        rec.put(&format!("gf div {a} 0"), &r0.map(|v| v.to_string()).unwrap_or("err".into()));
        // fma rows for a spread of accumulators
        for c in [0u8, 1, 0x53, 0xFF, a, a.wrapping_mul(37).wrapping_add(11)] {
            let row: Vec<u8> = (0..=255u8)
                .map(|b| {
                    let mut x = Octet::new(c);
                    x.fma(&Octet::new(a), &Octet::new(b));
                    x.byte()
                })
                .collect();
            for b in 0..=255u8 {
                if row[b as usize] != c ^ pmul(a, b) {
                    rec.impl_violation(format!("fma: {c} + {a}*{b} = {}", row[b as usize]));
                }
            }
            rec.put(&format!("gfrow fma {c} {a}"), &hex(&row));
        }
        // derived tables as they are inside the compiled crate
        rec.put(&format!("gft mul {a}"), &hex(&rq::OCTET_MUL[a as usize]));
        rec.put(&format!("gft low {a}"), &hex(&rq::OCTET_MUL_LOW_BITS[a as usize]));
        rec.put(&format!("gft hi {a}"), &hex(&rq::OCTET_MUL_HI_BITS[a as usize]));
        for x in 0..=255u8 {
            let want = pmul(a, x);
            if rq::OCTET_MUL[a as usize][x as usize] != want {
                rec.impl_violation(format!("OCTET_MUL[{a}][{x}] is not the product"));
            }
            for half in [0usize, 16] {
                let lo = rq::OCTET_MUL_LOW_BITS[a as usize][half + (x & 15) as usize];
                let hi = rq::OCTET_MUL_HI_BITS[a as usize][half + (x >> 4) as usize];
                if lo ^ hi != want {
                    rec.impl_violation(format!("nibble tables (half {half}) give {} for {a}*{x}", lo ^ hi));
                }
            }
        }
        rec.count("rows");
    }
    // alpha
    let mut p = 1u8;
    for i in 0..=257usize {
        let r = guarded(move || Octet::alpha(i).byte());
        if i < 256 {
            if r != Ok(p) {
                rec.impl_violation(format!("alpha({i}) = {:?}, 2^{i} = {p}", r));
            }
            p = pmul(p, 2);
        }
        rec.put(&format!("gf alpha {i}"), &r.map(|v| v.to_string()).unwrap_or("err".into()));
    }
    // associativity / distributivity over all triples, directly on the implementation
    let mut bad = 0u64;
    for a in 0..=255u8 {
        for b in 0..=255u8 {
            let ab = (Octet::new(a) * Octet::new(b)).byte();
            for c in 0..=255u8 {
                let bc = (Octet::new(b) * Octet::new(c)).byte();
                let l = (Octet::new(ab) * Octet::new(c)).byte();
                let r = (Octet::new(a) * Octet::new(bc)).byte();
                let d1 = (Octet::new(a) * Octet::new(b ^ c)).byte();
                let d2 = ab ^ (Octet::new(a) * Octet::new(c)).byte();
                if l != r || d1 != d2 {
                    bad += 1;
                    if bad < 5 {
                        rec.impl_violation(format!("field law fails at ({a},{b},{c})"));
                    }
                }
            }
        }
    }
    rec.add("triples_checked", 256 * 256 * 256);
}
