// Engine E1: octet arithmetic (C10), bulk kernels (C11), memory safety monitoring (C12).
use crate::util::*;
use raptorq::Octet;
use raptorq::verif as rq;

// the property's own oracle: carry-less multiplication modulo x^8+x^4+x^3+x^2+1
pub fn pmul(a: u8, b: u8) -> u8 {
    let mut acc: u16 = 0;
    let mut aa = a as u16;
    for k in 0..8 {
        if (b >> k) & 1 == 1 {
            acc ^= aa;
        }
        aa <<= 1;
        if aa & 0x100 != 0 {
            aa ^= 0x11D;
        }
    }
    acc as u8
}

pub fn pinv(a: u8) -> u8 {
    (1..=255u8).find(|x| pmul(a, *x) == 1).unwrap_or(0)
}

// ---------------------------------------------------------------- C10 (exhaustive)
pub fn octet(rec: &mut Recorder, _rng: &mut Rng, _thorough: bool) {
    for a in 0..=255u8 {
        // multiplication row
        let r = guarded(move || (0..=255u8).map(|b| (Octet::new(a) * Octet::new(b)).byte()).collect::<Vec<u8>>());
        match &r {
            Ok(row) => {
                for b in 0..=255u8 {
                    if row[b as usize] != pmul(a, b) {
                        rec.impl_violation(format!("Octet {a} * {b} = {}, polynomial product is {}", row[b as usize], pmul(a, b)));
                    }
                    if (Octet::new(a) + Octet::new(b)).byte() != a ^ b {
                        rec.impl_violation(format!("Octet {a} + {b} is not xor"));
                    }
                    // every spelling of addition / subtraction / multiplication / division the type offers
                    let (oa, ob) = (Octet::new(a), Octet::new(b));
                    let mut v1 = Octet::new(a); v1 += Octet::new(b);
                    let mut v2 = Octet::new(a); v2 += &ob;
                    if (&oa + &ob).byte() != a ^ b || v1.byte() != a ^ b || v2.byte() != a ^ b || (Octet::new(a) - Octet::new(b)).byte() != a ^ b {
                        rec.impl_violation(format!("Octet {a} +/- {b} (by reference / assigning / subtraction) is not xor"));
                    }
                    if (&oa * &ob).byte() != pmul(a, b) {
                        rec.impl_violation(format!("&Octet {a} * &Octet {b} is not the polynomial product"));
                    }
                    if b != 0 && (&oa / &ob).byte() != pmul(a, pinv(b)) {
                        rec.impl_violation(format!("&Octet {a} / &Octet {b} is not the field quotient"));
                    }
                }
            }
            Err(_) => rec.impl_violation(format!("Octet multiplication panics in row {a}")),
        }
        rec.put(&format!("gfrow mul {a}"), &r.map(|v| hex(&v)).unwrap_or("err".into()));
        // division row (b = 0 separately: must be refused)
        let mut row = vec![0u8; 256];
        for b in 1..=255u8 {
            match guarded(move || (Octet::new(a) / Octet::new(b)).byte()) {
                Ok(q) => {
                    row[b as usize] = q;
                    if q != pmul(a, pinv(b)) {
                        rec.impl_violation(format!("Octet {a} / {b} = {q}, field quotient is {}", pmul(a, pinv(b))));
                    }
                }
                Err(_) => {
                    row[b as usize] = 0;
                    rec.impl_violation(format!("Octet {a} / {b} panics"));
                }
            }
        }
        rec.put(&format!("gfrow div {a}"), &hex(&row));
        let r0 = guarded(move || (Octet::new(a) / Octet::new(0)).byte());
        rec.put(&format!("gf div {a} 0"), &r0.map(|v| v.to_string()).unwrap_or("err".into()));
        // fma rows for a spread of accumulators
        for c in [0u8, 1, 0x53, 0xFF, a, a.wrapping_mul(37).wrapping_add(11)] {
            let row: Vec<u8> = (0..=255u8)
                .map(|b| {
                    let mut x = Octet::new(c);
                    x.fma(&Octet::new(a), &Octet::new(b));
                    x.byte()
                })
                .collect();
            for b in 0..=255u8 {
                if row[b as usize] != c ^ pmul(a, b) {
                    rec.impl_violation(format!("fma: {c} + {a}*{b} = {}", row[b as usize]));
                }
            }
            rec.put(&format!("gfrow fma {c} {a}"), &hex(&row));
        }
        // derived tables as they are inside the compiled crate
        rec.put(&format!("gft mul {a}"), &hex(&rq::OCTET_MUL[a as usize]));
        rec.put(&format!("gft low {a}"), &hex(&rq::OCTET_MUL_LOW_BITS[a as usize]));
        rec.put(&format!("gft hi {a}"), &hex(&rq::OCTET_MUL_HI_BITS[a as usize]));
        for x in 0..=255u8 {
            let want = pmul(a, x);
            if rq::OCTET_MUL[a as usize][x as usize] != want {
                rec.impl_violation(format!("OCTET_MUL[{a}][{x}] is not the product"));
            }
            for half in [0usize, 16] {
                let lo = rq::OCTET_MUL_LOW_BITS[a as usize][half + (x & 15) as usize];
                let hi = rq::OCTET_MUL_HI_BITS[a as usize][half + (x >> 4) as usize];
                if lo ^ hi != want {
                    rec.impl_violation(format!("nibble tables (half {half}) give {} for {a}*{x}", lo ^ hi));
                }
            }
        }
        rec.count("rows");
    }
    // alpha
    let mut p = 1u8;
    for i in 0..=257usize {
        let r = guarded(move || Octet::alpha(i).byte());
        if i < 256 {
            if r != Ok(p) {
                rec.impl_violation(format!("alpha({i}) = {:?}, 2^{i} = {p}", r));
            }
            p = pmul(p, 2);
        }
        rec.put(&format!("gf alpha {i}"), &r.map(|v| v.to_string()).unwrap_or("err".into()));
    }
    // associativity / distributivity over all triples, directly on the implementation
    let mut bad = 0u64;
    for a in 0..=255u8 {
        for b in 0..=255u8 {
            let ab = (Octet::new(a) * Octet::new(b)).byte();
            for c in 0..=255u8 {
                let bc = (Octet::new(b) * Octet::new(c)).byte();
                let l = (Octet::new(ab) * Octet::new(c)).byte();
                let r = (Octet::new(a) * Octet::new(bc)).byte();
                let d1 = (Octet::new(a) * Octet::new(b ^ c)).byte();
                let d2 = ab ^ (Octet::new(a) * Octet::new(c)).byte();
                if l != r || d1 != d2 {
                    bad += 1;
                    if bad < 5 {
                        rec.impl_violation(format!("field law fails at ({a},{b},{c})"));
                    }
                }
            }
        }
    }
    rec.add("triples_checked", 256 * 256 * 256);
}

// ---------------------------------------------------------------- C11 / C12: kernels
use crate::guard::{GuardBuf, Place};
use raptorq::verif::verif_kernels as vk;

fn path_char(level: u8) -> char {
    match level { 0 => 'p', 1 => 's', 2 => 'a', _ => 'x' }
}

fn contents(rng: &mut Rng, len: usize, kind: u64) -> Vec<u8> {
    match kind % 6 {
        0 => rng.bytes(len),
        1 => vec![0u8; len],
        2 => vec![0xFFu8; len],
        3 => { let mut v = vec![0u8; len]; if len > 0 { let i = rng.below(len as u64) as usize; v[i] = 1 << rng.below(8); } v }
        4 => (0..len).map(|i| i as u8).collect(),
        _ => (0..len).map(|i| (i as u8).wrapping_mul(17) | 0x80).collect(),
    }
}

fn placement(rng: &mut Rng, it: u64) -> Place {
    match it % 4 { 0 => Place::EndFlush, 1 => Place::StartFlush, _ => Place::Offset(rng.below(64) as usize) }
}

fn spec_bits(words: &[u64], length: usize) -> Vec<u8> {
    let padding = (64 - length % 64) % 64;
    (0..length).map(|i| { let p = padding + i; ((words[p / 64] >> (p % 64)) & 1) as u8 }).collect()
}

pub fn kernels(rec: &mut Recorder, rng: &mut Rng, thorough: bool, outdir: &str) {
    crate::guard::install(&format!("{outdir}/fault.txt"));
    let maxlen = if thorough { 1100 } else { 4 * 64 + 17 };
    let mut it: u64 = 0;
    for level in 0..=3u8 {
        let pc = path_char(level);
        // long buffers too: a kernel may switch strategy (alignment peeling, striping, prefetch) only past some length
        let mut lens: Vec<usize> = (0..=maxlen).collect();
        lens.extend([1023usize, 1024, 1025, 1031, 1032, 1033, 1087, 1088, 1089, 1100, 1101, 2047, 2048, 2049, 2055, 4095, 4096, 4099, 8195, 16389, 32768, 32769, 65535].iter().filter(|l| **l > maxlen));
        for len in lens {
            let reps = if len <= 130 || thorough || len > 1000 { 3 } else { 1 };
            for rep in 0..reps {
                it += 1;
                // ---- add
                if vk::supported("add", level) {
                    let (d0, s0) = (contents(rng, len, it), contents(rng, len, it / 3 + rep));
                    let (pd, ps) = (placement(rng, it), placement(rng, it + 1));
                    crate::guard::set_case(&format!("FAULT kernel=add path={pc} len={len} dest={:?} src={:?}", pd, ps));
                    let mut gd = GuardBuf::from(&d0, pd);
                    let gs = GuardBuf::from(&s0, ps);
                    let before = (gd.slack_digest(), gs.slack_digest());
                    vk::add_assign_at(level, true, gd.as_mut(), gs.as_ref());
                    let out = gd.as_ref().to_vec();
                    let want: Vec<u8> = d0.iter().zip(&s0).map(|(a, b)| a ^ b).collect();
                    if out != want { rec.impl_violation(format!("add_assign path={pc} len={len}: wrong result (dest={} src={})", hex(&d0), hex(&s0))); }
                    if (gd.slack_digest(), gs.slack_digest()) != before || gs.as_ref() != &s0[..] { rec.impl_violation(format!("add_assign path={pc} len={len}: wrote outside dest")); }
                    if len <= 1200 { rec.put(&format!("krn add {pc} {} {}", hex(&d0), hex(&s0)), &hex(&out)); } else { rec.count("long_buffer_oracle_only"); }
                    rec.count(&format!("add_{pc}"));
                }
                // ---- mul / fma
                if vk::supported("mul", level) {
                    let c = if rep == 0 { (len % 254 + 2) as u8 } else { rng.range(0, 255) as u8 };
                    let d0 = contents(rng, len, it + 2);
                    let pd = placement(rng, it + 2);
                    crate::guard::set_case(&format!("FAULT kernel=mul path={pc} len={len} scalar={c} dest={:?}", pd));
                    let mut gd = GuardBuf::from(&d0, pd);
                    let before = gd.slack_digest();
                    vk::mulassign_scalar_at(level, true, gd.as_mut(), &Octet::new(c));
                    let out = gd.as_ref().to_vec();
                    let want: Vec<u8> = d0.iter().map(|a| pmul(c, *a)).collect();
                    if out != want { rec.impl_violation(format!("mulassign_scalar path={pc} len={len} scalar={c}: wrong result (dest={})", hex(&d0))); }
                    if gd.slack_digest() != before { rec.impl_violation(format!("mulassign_scalar path={pc} len={len}: wrote outside dest")); }
                    if len <= 1200 { rec.put(&format!("krn mul {pc} {c} {}", hex(&d0)), &hex(&out)); } else { rec.count("long_buffer_oracle_only"); }
                    rec.count(&format!("mul_{pc}"));

                    let c = if rep == 0 { (len % 253 + 2) as u8 } else { rng.range(2, 255) as u8 };
                    let (d0, s0) = (contents(rng, len, it + 3), contents(rng, len, it / 2 + 1));
                    let (pd, ps) = (placement(rng, it + 3), placement(rng, it));
                    crate::guard::set_case(&format!("FAULT kernel=fma path={pc} len={len} scalar={c} dest={:?} src={:?}", pd, ps));
                    let mut gd = GuardBuf::from(&d0, pd);
                    let gs = GuardBuf::from(&s0, ps);
                    let before = (gd.slack_digest(), gs.slack_digest());
                    vk::fma_at(level, true, gd.as_mut(), gs.as_ref(), &Octet::new(c));
                    let out = gd.as_ref().to_vec();
                    let want: Vec<u8> = d0.iter().zip(&s0).map(|(a, b)| a ^ pmul(c, *b)).collect();
                    if out != want { rec.impl_violation(format!("fused_addassign_mul_scalar path={pc} len={len} scalar={c}: wrong result")); }
                    if (gd.slack_digest(), gs.slack_digest()) != before || gs.as_ref() != &s0[..] { rec.impl_violation(format!("fma path={pc} len={len}: wrote outside dest")); }
                    if len <= 1200 { rec.put(&format!("krn fma {pc} {c} {} {}", hex(&d0), hex(&s0)), &hex(&out)); } else { rec.count("long_buffer_oracle_only"); }
                    rec.count(&format!("fma_{pc}"));
                }
                // ---- binary fma (avx512, avx2 exact; the dispatcher's portable route for the others)
                {
                    let c = if rep == 1 { 1 } else { rng.range(1, 255) as u8 };
                    let d0 = contents(rng, len, it + 4);
                    let nwords = (len + 63) / 64;
                    let words: Vec<u64> = (0..nwords).map(|i| match (it + i as u64) % 5 { 0 => 0, 1 => u64::MAX, _ => rng.next() }).collect();
                    let pd = placement(rng, it + 5);
                    crate::guard::set_case(&format!("FAULT kernel=fmabin path={pc} len={len} scalar={c} dest={:?}", pd));
                    let mut gd = GuardBuf::from(&d0, pd);
                    let before = gd.slack_digest();
                    // the packed words live in an exactly sized heap Vec, as in the solver
                    let bv = rq::BinaryOctetVec::new(words.clone(), len);
                    let exact = vk::supported("fmabin", level);
                    vk::fma_binary_at(level, exact, gd.as_mut(), &bv, &Octet::new(c));
                    let out = gd.as_ref().to_vec();
                    let bits = spec_bits(&words, len);
                    let want: Vec<u8> = d0.iter().zip(&bits).map(|(a, b)| a ^ (if *b == 1 { c } else { 0 })).collect();
                    if out != want { rec.impl_violation(format!("fused_addassign_mul_scalar_binary path={pc} len={len} scalar={c}: wrong result")); }
                    if gd.slack_digest() != before { rec.impl_violation(format!("fmabin path={pc} len={len}: wrote outside dest")); }
                    if vk::to_octet_vec(&bv) != bits { rec.impl_violation(format!("to_octet_vec len={len} disagrees with the documented layout")); }
                    if len <= 1200 { rec.put(&format!("krn fmabin {pc} {c} {} {len} {}", hex(&d0), list(&words)), &hex(&out)); } else { rec.count("long_buffer_oracle_only"); }
                    rec.count(&format!("fmabin_{pc}{}", if exact { "" } else { "_via_octets" }));
                }
            }
        }
        // all 256 scalars on a short length sweep
        if vk::supported("mul", level) {
            for c in 0..=255u8 {
                for len in [1usize, 15, 16, 17, 31, 33, 63, 64, 65, 100] {
                    let d0 = contents(rng, len, c as u64);
                    let s0 = rng.bytes(len);
                    let mut d = d0.clone();
                    vk::mulassign_scalar_at(level, true, &mut d, &Octet::new(c));
                    if d != d0.iter().map(|a| pmul(c, *a)).collect::<Vec<u8>>() { rec.impl_violation(format!("mulassign_scalar path={pc} len={len} scalar={c}: wrong result")); }
                    rec.put(&format!("krn mul {pc} {c} {}", hex(&d0)), &hex(&d));
                    if c >= 2 {
                        let mut d = d0.clone();
                        vk::fma_at(level, true, &mut d, &s0, &Octet::new(c));
                        if d != d0.iter().zip(&s0).map(|(a, b)| a ^ pmul(c, *b)).collect::<Vec<u8>>() { rec.impl_violation(format!("fma path={pc} len={len} scalar={c}: wrong result")); }
                        rec.put(&format!("krn fma {pc} {c} {} {}", hex(&d0), hex(&s0)), &hex(&d));
                    }
                    rec.count("scalar_sweep");
                }
            }
        }
    }
    // dispatcher with ceilings: the public entry points on every path the host offers
    for level in [0u8, 1, 2, 3] {
        vk::set_ceiling(level);
        for len in [0usize, 1, 7, 8, 9, 63, 64, 65, 127, 129, 200] {
            let (d0, s0) = (rng.bytes(len), rng.bytes(len));
            let c = rng.range(2, 255) as u8;
            let mut a = d0.clone(); rq::add_assign(&mut a, &s0);
            let mut m = d0.clone(); rq::mulassign_scalar(&mut m, &Octet::new(c));
            let mut f = d0.clone(); rq::fused_addassign_mul_scalar(&mut f, &s0, &Octet::new(c));
            let ok = a == d0.iter().zip(&s0).map(|(x, y)| x ^ y).collect::<Vec<u8>>()
                && m == d0.iter().map(|x| pmul(c, *x)).collect::<Vec<u8>>()
                && f == d0.iter().zip(&s0).map(|(x, y)| x ^ pmul(c, *y)).collect::<Vec<u8>>();
            if !ok { rec.impl_violation(format!("public kernel entry point wrong under ceiling {level} len={len}")); }
            rec.count("dispatch");
        }
    }
    vk::set_ceiling(vk::NO_CEILING);
}

// ---------------------------------------------------------------- C12: slab paired borrow
pub fn slab(rec: &mut Recorder, rng: &mut Rng, thorough: bool, outdir: &str) {
    crate::guard::install(&format!("{outdir}/fault.txt"));
    use raptorq::SymbolSlab;
    use raptorq::verif::{SymbolOps, perform_op};
    let sizes: Vec<usize> = if thorough { (1..=300).collect() } else { (1..=80).chain([127, 128, 129, 200, 255, 256, 257]).collect() };
    for ss in sizes {
        for _ in 0..(if thorough { 6 } else { 2 }) {
            let count = rng.range(2, 7) as usize;
            let syms: Vec<Vec<u8>> = (0..count).map(|_| rng.bytes(ss)).collect();
            let mut slab = SymbolSlab::from_symbols(syms.iter().map(|s| raptorq::Symbol::new(s.clone())).collect(), ss);
            let mut model = syms.clone();
            // optional reorder (a permutation, as the solver produces)
            if rng.chance(1, 3) {
                let mut order: Vec<usize> = (0..count).collect();
                rng.shuffle(&mut order);
                perform_op(&SymbolOps::Reorder { order: order.clone() }, &mut slab);
                model = order.iter().map(|p| syms[*p].clone()).collect();
            }
            let mut ops_txt: Vec<String> = vec![];
            if model != syms {
                // the reorder applied above, as an op
                let order: Vec<usize> = model.iter().map(|m| syms.iter().position(|s| s == m).unwrap()).collect();
                if { let mut o = order.clone(); o.sort(); o.dedup(); o.len() == count } {
                    ops_txt.push(format!("r:{}", order.iter().map(|x| x.to_string()).collect::<Vec<_>>().join(".")));
                }
            }
            let had_reorder = model != syms;
            for _ in 0..6 {
                let dest = rng.below(count as u64) as usize;
                let mut src = rng.below(count as u64) as usize;
                if src == dest { src = (dest + 1) % count; }
                let c = if !checked_build() && rng.chance(1, 8) { rng.below(2) as u8 } else { rng.range(2, 255) as u8 };
                let which = rng.below(3);
                ops_txt.push(match which { 0 => format!("a:{dest}:{src}"), 1 => format!("m:{dest}:{c}"), _ => format!("f:{dest}:{src}:{c}") });
                match which {
                    0 => { perform_op(&SymbolOps::AddAssign { dest, src }, &mut slab); let s = model[src].clone(); for (a, b) in model[dest].iter_mut().zip(&s) { *a ^= b; } }
                    1 => { perform_op(&SymbolOps::MulAssign { dest, scalar: Octet::new(c) }, &mut slab); for a in model[dest].iter_mut() { *a = pmul(c, *a); } }
                    _ => { perform_op(&SymbolOps::FMA { dest, src, scalar: Octet::new(c) }, &mut slab); let s = model[src].clone(); for (a, b) in model[dest].iter_mut().zip(&s) { *a ^= pmul(c, *b); } }
                }
                for i in 0..count {
                    if slab.get(i) != &model[i][..] {
                        rec.impl_violation(format!("slab op with symbol size {ss}: symbol {i} of {count} differs from the element-wise result (dest={dest} src={src}) - neighbouring symbol touched or wrong value"));
                    }
                }
                rec.count("slab_ops");
            }
            if !had_reorder || ops_txt.first().map_or(false, |o| o.starts_with("r:")) {
                let all: Vec<u8> = (0..count).flat_map(|i| slab.get(i).to_vec()).collect();
                rec.put(&format!("slab {ss} {} {}", hex(&syms.concat()), ops_txt.join(",")), &hex(&all));
                rec.put(&format!("slabb {ss} {} {}", hex(&syms.concat()), ops_txt.join(",")), &hex(&all));
            }
        }
    }
    // malformed stream: reorder mappings that are not permutations (duplicates, entries >= count) must not
    // turn a paired operation into overlapping or out-of-range access: the three asserts of get_pair_mut
    // apply to the *physical* indices
    for it in 0..(if thorough { 400 } else { 60 }) {
        let ss = *rng.pick(&[1usize, 3, 8, 16, 33]);
        let count = rng.range(2, 6) as usize;
        let syms: Vec<Vec<u8>> = (0..count).map(|_| rng.bytes(ss)).collect();
        let mut order: Vec<usize> = (0..count).collect();
        match it % 3 { 0 => { let a = rng.below(count as u64) as usize; let b = (a + 1) % count; order[a] = order[b]; }      // duplicate
                       1 => { let a = rng.below(count as u64) as usize; order[a] = count + rng.below(3) as usize; }          // beyond the slab
                       _ => { rng.shuffle(&mut order); } }                                                                  // a genuine permutation (control)
        let dest = rng.below(count as u64) as usize;
        let src = (dest + 1 + rng.below(count as u64 - 1) as usize) % count;
        let c = rng.range(2, 255) as u8;
        let fma = rng.chance(1, 2);
        let (o2, s2) = (order.clone(), syms.clone());
        crate::guard::set_case(&format!("FAULT slab: {count} symbols of {ss} bytes, reorder {:?}, then {} dest={dest} src={src}", order, if fma { "fma" } else { "add_assign" }));
        let r = guarded(move || {
            let mut slab = SymbolSlab::from_symbols(s2.iter().map(|s| raptorq::Symbol::new(s.clone())).collect(), ss);
            perform_op(&SymbolOps::Reorder { order: o2 }, &mut slab);
            if fma { perform_op(&SymbolOps::FMA { dest, src, scalar: Octet::new(c) }, &mut slab); } else { perform_op(&SymbolOps::AddAssign { dest, src }, &mut slab); }
            (0..count).map(|i| slab.get(i).to_vec()).collect::<Vec<_>>()
        });
        let bad = order[dest] == order[src] || order[dest] >= count || order[src] >= count;
        let ops = format!("r:{},{}", order.iter().map(|x| x.to_string()).collect::<Vec<_>>().join("."), if fma { format!("f:{dest}:{src}:{c}") } else { format!("a:{dest}:{src}") });
        match &r {
            Ok(_) if bad => rec.impl_violation(format!("paired slab operation accepted although dest and src map to physical symbols {} and {} of {count} (overlapping or out-of-range access): ops {ops}", order[dest], order[src])),
            _ => {}
        }
        // reading back through a mapping with out-of-range entries panics on both sides; compare only when defined
        let ans = match r { Ok(v) => hex(&v.concat()), Err(_) => "err".into() };
        rec.put(&format!("slab {ss} {} {ops}", hex(&syms.concat())), &ans);
        rec.put(&format!("slabb {ss} {} {ops}", hex(&syms.concat())), &ans);
        rec.count(if bad { "slab_malformed_mapping" } else { "slab_permutation_control" });
    }
    // the slab's bulk helpers (into_symbols with and without a mapping, copy_block_from, gather) and the
    // Symbol wrappers of the kernels: same bytes as the plain element-wise definitions
    for it in 0..(if thorough { 600 } else { 120 }) {
        let ss = if it % 3 == 0 { rng.range(1, 9) as usize } else { rng.range(1, 140) as usize };
        let count = rng.range(1, 7) as usize;
        let syms: Vec<Vec<u8>> = (0..count).map(|_| rng.bytes(ss)).collect();
        let mut order: Vec<usize> = (0..count).collect();
        rng.shuffle(&mut order);
        let idx: Vec<usize> = (0..rng.range(0, 9) as usize).map(|_| rng.below(count as u64) as usize).collect();
        let start = rng.below(count as u64) as usize;
        let nblk = rng.range(0, (count - start) as u64) as usize;
        let blk = rng.bytes(ss * nblk);
        let c = if it % 4 == 1 { (it / 4 % 2) as u8 } else { rng.below(256) as u8 };
        let (s2, o2, i2, b2) = (syms.clone(), order.clone(), idx.clone(), blk.clone());
        let r = guarded(move || {
            let mk = || SymbolSlab::from_symbols(s2.iter().map(|s| raptorq::Symbol::new(s.clone())).collect(), ss);
            let plain: Vec<Vec<u8>> = mk().into_symbols().into_iter().map(|s| s.into_bytes()).collect();
            let mut m = mk(); m.set_reorder(o2.clone());
            let mapped: Vec<Vec<u8>> = m.into_symbols().into_iter().map(|s| s.into_bytes()).collect();
            let g = mk().gather(&i2);
            let gathered: Vec<Vec<u8>> = (0..g.len()).map(|i| g.get(i).to_vec()).collect();
            let mut cb = mk(); cb.copy_block_from(start, &b2);
            let copied: Vec<Vec<u8>> = (0..cb.len()).map(|i| cb.get(i).to_vec()).collect();
            // Symbol wrappers
            let mut x = raptorq::Symbol::new(s2[0].clone());
            let y = raptorq::Symbol::new(s2[s2.len() - 1].clone());
            x += &y;
            let added = x.as_bytes().to_vec();
            let mut x = raptorq::Symbol::new(s2[0].clone());
            x.mulassign_scalar(&Octet::new(c));
            let muld = x.as_bytes().to_vec();
            let mut x = raptorq::Symbol::new(s2[0].clone());
            // (checked builds refuse the scalars 0 and 1 here by a debug assertion; unchecked builds must compute them)
            if c >= 2 || !checked_build() { x.fused_addassign_mul_scalar(&y, &Octet::new(c)); }
            let fmad = x.as_bytes().to_vec();
            let z = raptorq::Symbol::zero(ss);
            (plain, mapped, gathered, copied, added, muld, fmad, z.len(), z.is_empty(), z.as_bytes().iter().all(|b| *b == 0))
        });
        match r {
            Ok((plain, mapped, gathered, copied, added, muld, fmad, zl, ze, zz)) => {
                let last = &syms[count - 1];
                let mut bad = vec![];
                if plain != syms { bad.push("into_symbols"); }
                if mapped != order.iter().map(|p| syms[*p].clone()).collect::<Vec<_>>() { bad.push("into_symbols through a mapping"); }
                if gathered != idx.iter().map(|i| syms[*i].clone()).collect::<Vec<_>>() { bad.push("gather"); }
                let mut want = syms.clone();
                for (q, ch) in blk.chunks(ss).enumerate() { want[start + q] = ch.to_vec(); }
                if copied != want { bad.push("copy_block_from"); }
                if added != syms[0].iter().zip(last).map(|(a, b)| a ^ b).collect::<Vec<u8>>() { bad.push("Symbol += &Symbol"); }
                if muld != syms[0].iter().map(|a| pmul(c, *a)).collect::<Vec<u8>>() { bad.push("Symbol::mulassign_scalar"); }
                if (c >= 2 || !checked_build()) && fmad != syms[0].iter().zip(last).map(|(a, b)| a ^ pmul(c, *b)).collect::<Vec<u8>>() { bad.push("Symbol::fused_addassign_mul_scalar"); }
                if zl != ss || ze != (ss == 0) || !zz { bad.push("Symbol::zero"); }
                for b in bad { rec.impl_violation(format!("{b} differs from its element-wise definition: {count} symbols of {ss} bytes, mapping {:?}, indices {:?}, scalar {c}", order, idx)); }
            }
            Err(_) => rec.impl_violation(format!("a slab / Symbol helper panics on valid arguments: {count} symbols of {ss} bytes, mapping {:?}, indices {:?}, block of {} bytes at {start}, scalar {c}", order, idx, blk.len())),
        }
        rec.count("slab_helpers");
    }
    // copy_block_from with a source that is not a whole number of symbols: whatever it does inside the slab, a
    // block that extends beyond the slab's last symbol must be refused (a safe function must not write there)
    for it in 0..(if thorough { 300 } else { 60 }) {
        let ss = rng.range(1, 40) as usize;
        let count = rng.range(1, 6) as usize;
        let start = rng.below(count as u64 + 1) as usize;
        let room = (count - start) * ss;
        let len = match it % 3 { 0 => room + rng.range(1, ss as u64) as usize, 1 => room.saturating_sub(rng.below(ss as u64) as usize), _ => rng.below((room + 2 * ss) as u64) as usize };
        let syms: Vec<Vec<u8>> = (0..count).map(|_| rng.bytes(ss)).collect();
        let blk = rng.bytes(len);
        let (s2, b2) = (syms.clone(), blk.clone());
        crate::guard::set_case(&format!("FAULT slab: copy_block_from of {len} bytes at symbol {start} into {count} symbols of {ss} bytes"));
        let r = guarded(move || {
            let mut slab = SymbolSlab::from_symbols(s2.iter().map(|s| raptorq::Symbol::new(s.clone())).collect(), ss);
            slab.copy_block_from(start, &b2);
            (0..slab.len()).flat_map(|i| slab.get(i).to_vec()).collect::<Vec<u8>>()
        });
        let flat: Vec<u8> = syms.concat();
        match r {
            Ok(_) if len > room => rec.impl_violation(format!("SymbolSlab::copy_block_from accepted a block of {len} bytes at symbol {start} of a slab of {count} symbols of {ss} bytes: {} bytes would lie beyond the slab's buffer", len - room)),
            Ok(out) => {
                // accepted (whole or ragged but inside): exactly the bytes start*ss .. start*ss+len are replaced
                let mut want = flat.clone();
                want[start * ss..start * ss + len].copy_from_slice(&blk);
                if len % ss == 0 && out != want { rec.impl_violation(format!("SymbolSlab::copy_block_from wrote the wrong bytes: {count} symbols of {ss} bytes, {len} bytes at symbol {start}")); }
                if out.len() != flat.len() || out[..start * ss] != flat[..start * ss] || out[start * ss + len..] != flat[start * ss + len..] {
                    rec.impl_violation(format!("SymbolSlab::copy_block_from touched bytes outside the block: {count} symbols of {ss} bytes, {len} bytes at symbol {start}"));
                }
            }
            Err(_) => {} // refusal (checked builds refuse every ragged block)
        }
        rec.count(if len > room { "slab_block_beyond_end" } else { "slab_block_inside" });
    }
    // zero-length symbols through the natural dispatch of every kernel
    let r = guarded(|| {
        let mut x = raptorq::Symbol::new(vec![]);
        let y = raptorq::Symbol::new(vec![]);
        x += &y;
        x.mulassign_scalar(&Octet::new(7));
        x.fused_addassign_mul_scalar(&y, &Octet::new(7));
        (x.len(), x.is_empty())
    });
    if !matches!(r, Ok((0, true))) { rec.impl_violation("kernel operations on zero-length symbols panic or change the length".to_string()); }
    rec.count("zero_length_symbols");
    // the paired borrow refuses dest == src and out-of-range indices
    let mut slab = SymbolSlab::with_zeros(3, 8);
    for (d, s) in [(1usize, 1usize), (0, 3), (3, 0)] {
        let mut s2 = slab.clone();
        let r = guarded(move || { s2.add_assign(d, s); });
        if r.is_ok() { rec.impl_violation(format!("SymbolSlab::add_assign({d},{s}) on 3 symbols was not refused")); }
        rec.count("slab_refusals");
    }
    slab.add_assign(0, 1);
}
