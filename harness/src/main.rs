mod e1;
mod guard;
mod e2;
mod e3;
mod e4;
mod e5;
mod tables;
mod util;
mod workload;

use util::{Recorder, Rng};

fn main() {
    let args: Vec<String> = std::env::args().collect();
    match args.get(1).map(|s| s.as_str()) {
        Some("tables") => tables::dump(),
        // `rqh ops <K> <sparse threshold>`: the operation vector of the encoder's solve (one line)
        Some("ops") => {
            let k: u16 = args[2].parse().unwrap();
            let thr: u32 = args[3].parse().unwrap();
            let plan = raptorq::SourceBlockEncodingPlan::verif_generate(k, thr).expect("solve failed");
            println!("{}", e3::ops_str(plan.verif_operations()));
        }
        // `rqh opsdec <K> <isis comma list> <sparse threshold>`: operation vector of a decoder-side solve
        // of the full system for the received internal symbol ids (None -> "none")
        Some("opsdec") => {
            use raptorq::verif as rq;
            let k: u32 = args[2].parse().unwrap();
            let isis: Vec<u32> = args[3].split(',').map(|x| x.parse().unwrap()).collect();
            let thr: u32 = args[4].parse().unwrap();
            let kp = rq::extended_source_block_symbols(k);
            let rows = (rq::num_ldpc_symbols(k) + rq::num_hdpc_symbols(k)) as usize + isis.len();
            let d = raptorq::SymbolSlab::with_zeros(rows, 1);
            let ops = if kp >= thr {
                let (a, h) = rq::generate_constraint_matrix::<raptorq::SparseBinaryMatrix>(k, &isis);
                rq::fused_inverse_mul_symbols(a, h, d, k).1
            } else {
                let (a, h) = rq::generate_constraint_matrix::<raptorq::DenseBinaryMatrix>(k, &isis);
                rq::fused_inverse_mul_symbols(a, h, d, k).1
            };
            match ops { Some(o) => println!("{}", e3::ops_str(&o)), None => println!("none") }
        }
        Some("gen") => {
            let engine = args[2].as_str();
            let thorough = args[3] == "thorough";
            let seed: u64 = args[4].parse().unwrap();
            let outdir = args[5].as_str();
            if engine == "fence" {
                // the fence workload lives in its own binary (its global allocator puts every allocation against a guard page)
                let exe = std::env::current_exe().unwrap().with_file_name("rqfence");
                let st = std::process::Command::new(exe).args([&args[3], &args[4], &args[5]]).status().expect("rqfence not built");
                std::process::exit(st.code().unwrap_or(70));
            }
            util::quiet_panics();
            let mut rec = Recorder::new(outdir);
            let mut rng = Rng::new(seed);
            let r = std::panic::catch_unwind(std::panic::AssertUnwindSafe(|| match engine {
                "tables" => tables::compare(&mut rec),
                "octet" => e1::octet(&mut rec, &mut rng, thorough),
                "kernels" => e1::kernels(&mut rec, &mut rng, thorough, outdir),
                "slab" => e1::slab(&mut rec, &mut rng, thorough, outdir),
                "cm" => e3::cm(&mut rec, &mut rng, thorough),
                "enc" => e3::enc(&mut rec, &mut rng, thorough),
                "repair" => { e3::repair(&mut rec, &mut rng, thorough); e3::repair_plan_history(&mut rec, &mut rng, thorough); e3::repair_long_windows(&mut rec, &mut rng, thorough); }
                "object" => { e3::object(&mut rec, &mut rng, thorough); e3::object_many_symbols(&mut rec, &mut rng, thorough); e3::object_huge_decoders(&mut rec, &mut rng, thorough); }
                "decblk" => { e3::decblk(&mut rec, &mut rng, thorough); e3::decblk_directed(&mut rec, &mut rng, thorough); e3::decblk_malformed(&mut rec, &mut rng, thorough); e3::decblk_flooded(&mut rec, &mut rng, thorough); e3::decblk_deficient_prefix(&mut rec, &mut rng, thorough); }
                "decobj" => e3::decobj(&mut rec, &mut rng, thorough),
                "inter" => e3::inter(&mut rec, &mut rng, thorough),
                "overhead" => e3::overhead(&mut rec, &mut rng, thorough),
                "configs" => e3::configs(&mut rec, &mut rng, thorough, outdir, seed),
                "workload" => e3::workload_only(&mut rec, thorough, outdir, seed),
                "fastpath" => e3::fastpath(&mut rec, &mut rng, thorough),
                "solver" => e3::solver(&mut rec, &mut rng, thorough),
                "plan" => e3::plan(&mut rec, &mut rng, thorough),
                "linear" => { e3::linear(&mut rec, &mut rng, thorough); e3::linear_wide(&mut rec, &mut rng, thorough); e3::linear_huge_blocks(&mut rec, &mut rng, thorough); }
                "matrices" => e4::matrices(&mut rec, &mut rng, thorough),
                "cache" => e5::cache(&mut rec, &mut rng, thorough),
                "wire" => e2::wire(&mut rec, &mut rng, thorough),
                "otinew" => e2::oti_new(&mut rec, &mut rng, thorough),
                "partition" => e2::partition(&mut rec, &mut rng, thorough),
                "genparams" => e2::gen_params(&mut rec, &mut rng, thorough),
                "params" => e2::params(&mut rec, &mut rng, thorough),
                _ => {
                    eprintln!("unknown engine {engine}");
                    std::process::exit(2);
                }
            }));
            if r.is_err() {
                // every call into the crate is guarded; reaching this means the crate panicked
                // somewhere the property promises it does not (recorded, never swallowed)
                rec.impl_violation(format!("engine {engine} aborted: the implementation panicked outside a guarded call after {} requests", rec.n));
            }
            rec.finish(outdir);
        }
        _ => {
            eprintln!("usage: rqh tables | rqh gen <engine> <quick|thorough> <seed> <outdir>");
            std::process::exit(2);
        }
    }
}
