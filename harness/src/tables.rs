// Translator input: every constant table / limit of the crate, read from the crate built from
// /repo's working tree, printed as `name bits count v0 v1 ...` lines.
use raptorq::verif as rq;

fn line(name: &str, bits: u32, vals: impl Iterator<Item = u64>) {
    let v: Vec<String> = vals.map(|x| x.to_string()).collect();
    println!("{name} {bits} {} {}", v.len(), v.join(" "));
}

pub fn dump() {
    let vt = rq::rand_tables();
    for (i, t) in vt.iter().enumerate() {
        line(&format!("v{i}P"), 32, t.iter().map(|x| *x as u64));
    }
    let t2 = &rq::SYSTEMATIC_INDICES_AND_PARAMETERS;
    line("t2K", 32, t2.iter().map(|r| r.0 as u64));
    line("t2J", 32, t2.iter().map(|r| r.1 as u64));
    line("t2S", 32, t2.iter().map(|r| r.2 as u64));
    line("t2H", 32, t2.iter().map(|r| r.3 as u64));
    line("t2W", 32, t2.iter().map(|r| r.4 as u64));
    let p1 = rq::p1_table();
    line("p1K", 32, p1.iter().map(|r| r.0 as u64));
    line("p1V", 32, p1.iter().map(|r| r.1 as u64));
    let (exp, log) = rq::octet_tables();
    line("octExpP", 8, exp.iter().map(|x| *x as u64));
    line("octLogP", 8, log.iter().map(|x| *x as u64));
    line("octMulP", 8, rq::OCTET_MUL.iter().flat_map(|r| r.iter().map(|x| *x as u64)));
    line("octMulLoP", 8, rq::OCTET_MUL_LOW_BITS.iter().flat_map(|r| r.iter().map(|x| *x as u64)));
    line("octMulHiP", 8, rq::OCTET_MUL_HI_BITS.iter().flat_map(|r| r.iter().map(|x| *x as u64)));
    // Deg table: recovered from deg()'s behaviour (the array is local to the function):
    // f[d] = least v with deg(v, W) > d for a W large enough not to clamp.
    let mut f = vec![0u64];
    let mut d = 1u32;
    for v in 0..1048576u32 {
        let dv = rq::deg(v, 1000);
        while dv > d {
            f.push(v as u64);
            d += 1;
        }
    }
    f.push(1048576);
    line("degP", 32, f.into_iter());
    line("maxSourceSymbols", 32, [rq::MAX_SOURCE_SYMBOLS_PER_BLOCK as u64].into_iter());
    line("sparseThreshold", 32, [rq::SPARSE_MATRIX_THRESHOLD as u64].into_iter());
    line("cacheCapacity", 32, [rq::verif_cache::CAPACITY as u64].into_iter());
}
