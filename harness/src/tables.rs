// Translator input: every constant table / limit of the crate, read from the crate built from
// /repo's working tree, printed as `name bits count v0 v1 ...` lines.
use raptorq::verif as rq;

use std::fmt::Write as _;

thread_local! { static OUT: std::cell::RefCell<String> = std::cell::RefCell::new(String::new()); }

fn line(name: &str, bits: u32, vals: impl Iterator<Item = u64>) {
    let v: Vec<String> = vals.map(|x| x.to_string()).collect();
    OUT.with(|o| writeln!(o.borrow_mut(), "{name} {bits} {} {}", v.len(), v.join(" ")).unwrap());
}

pub fn dump() {
    print!("{}", dump_string());
}

// The frozen copy of the pinned crate's tables (assumed to be RFC 6330's).
pub const RFC_TABLES: &str = include_str!("../rfc_tables.txt");

// Engine `tables`: every live table entry against the frozen RFC copy, with a concrete API-level
// consequence for the first deviations.
pub fn compare(rec: &mut crate::util::Recorder) {
    let live = dump_string();
    let parse = |s: &str| -> Vec<(String, Vec<u64>)> {
        s.lines().map(|l| { let mut p = l.split(' '); let name = p.next().unwrap().to_string(); p.next(); p.next(); (name, p.map(|x| x.parse().unwrap()).collect()) }).collect()
    };
    let (a, b) = (parse(&live), parse(RFC_TABLES));
    for ((name, va), (nb, vb)) in a.iter().zip(b.iter()) {
        assert_eq!(name, nb);
        if va.len() != vb.len() {
            rec.impl_violation(format!("table {name} has {} entries, RFC has {}", va.len(), vb.len()));
        }
        let mut shown = 0;
        for (i, (x, y)) in va.iter().zip(vb.iter()).enumerate() {
            if x != y && shown < 3 {
                shown += 1;
                let consequence = match name.as_str() {
                    "degP" => format!("deg({}, 1000) = {} but RFC 5.3.5.2 gives {}", x.min(y), rq::deg(*x.min(y) as u32, 1000), if y < x { i + 1 } else { i }),
                    "v0P" => format!("rand({i}, 0, 4294967295) = {}", rq::rand(i as u32, 0u32, u32::MAX)),
                    "t2K" | "t2J" | "t2S" | "t2H" | "t2W" | "p1V" | "p1K" => format!("systematic constants of K'={} deviate", b[4].1.get(i).copied().unwrap_or(0)),
                    _ => String::new(),
                };
                rec.impl_violation(format!("table {name}[{i}] = {x}, RFC 6330 has {y}; {consequence}"));
            }
            rec.count("entries_compared");
        }
        rec.put(&format!("tablen {name}"), &va.len().to_string());
    }
}

pub fn dump_string() -> String {
    OUT.with(|o| o.borrow_mut().clear());
    dump_inner();
    OUT.with(|o| o.borrow().clone())
}

fn dump_inner() {
    let vt = rq::rand_tables();
    for (i, t) in vt.iter().enumerate() {
        line(&format!("v{i}P"), 32, t.iter().map(|x| *x as u64));
    }
    let t2 = &rq::SYSTEMATIC_INDICES_AND_PARAMETERS;
    line("t2K", 32, t2.iter().map(|r| r.0 as u64));
    line("t2J", 32, t2.iter().map(|r| r.1 as u64));
    line("t2S", 32, t2.iter().map(|r| r.2 as u64));
    line("t2H", 32, t2.iter().map(|r| r.3 as u64));
    line("t2W", 32, t2.iter().map(|r| r.4 as u64));
    let p1 = rq::p1_table();
    line("p1K", 32, p1.iter().map(|r| r.0 as u64));
    line("p1V", 32, p1.iter().map(|r| r.1 as u64));
    let (exp, log) = rq::octet_tables();
    line("octExpP", 8, exp.iter().map(|x| *x as u64));
    line("octLogP", 8, log.iter().map(|x| *x as u64));
    line("octMulP", 8, rq::OCTET_MUL.iter().flat_map(|r| r.iter().map(|x| *x as u64)));
    line("octMulLoP", 8, rq::OCTET_MUL_LOW_BITS.iter().flat_map(|r| r.iter().map(|x| *x as u64)));
    line("octMulHiP", 8, rq::OCTET_MUL_HI_BITS.iter().flat_map(|r| r.iter().map(|x| *x as u64)));
    // Deg table: recovered from deg()'s behaviour (the array is local to the function):
    // f[d] = least v with deg(v, W) > d for a W large enough not to clamp.
    let mut f = vec![0u64];
    let mut d = 1u32;
    for v in 0..1048576u32 {
        let dv = rq::deg(v, 1000);
        while dv > d {
            f.push(v as u64);
            d += 1;
        }
    }
    f.push(1048576);
    line("degP", 32, f.into_iter());
    line("maxSourceSymbols", 32, [rq::MAX_SOURCE_SYMBOLS_PER_BLOCK as u64].into_iter());
    line("sparseThreshold", 32, [rq::SPARSE_MATRIX_THRESHOLD as u64].into_iter());
    line("cacheCapacity", 32, [rq::verif_cache::CAPACITY as u64].into_iter());
}
