// Engine E4: DenseBinaryMatrix and SparseBinaryMatrix against one abstract bit array (C16).
// Admissible operation sequences are produced by tracking the interface's preconditions
// (explicit asserts / unimplemented! / documented contracts) on a shadow bit array.
use crate::util::*;
use raptorq::{BinaryMatrix, DenseBinaryMatrix, Octet, SparseBinaryMatrix};

struct Shadow {
    h: usize,
    w: usize,
    dense: usize,              // number of trailing dense columns of the sparse back-end
    bits: Vec<Vec<bool>>,
    indexed: bool,
    col_valid: Vec<bool>,      // per logical column: column index still exact (debug_assert of the crate)
    tainted: Vec<Option<usize>>, // per row: cells [0, boundary) undefined after a partial row addition
}

impl Shadow {
    fn first_dense(&self) -> usize { self.w - self.dense }
    fn sparse_ones(&self, r: usize) -> Vec<usize> { (0..self.first_dense()).filter(|c| self.bits[r][*c]).collect() }
    fn any_sparse_one(&self) -> bool { (0..self.h).any(|r| !self.sparse_ones(r).is_empty()) }
    fn defined(&self, r: usize, c: usize) -> bool { self.tainted[r].map_or(true, |b| c >= b) }
    fn row_clean(&self, r: usize) -> bool { self.tainted[r].is_none() }
}

fn run_ops<T: BinaryMatrix>(m: &mut T, ops: &[String]) -> Vec<String> {
    let mut out = vec![];
    for op in ops {
        let p: Vec<&str> = op.split(':').collect();
        let n = |i: usize| -> usize { p[i].parse().unwrap() };
        let tok = match p[0] {
            "s" => { m.set(n(1), n(2), Octet::new(n(3) as u8)); "ok".to_string() }
            "g" => if m.get(n(1), n(2)) == Octet::zero() { "0".into() } else { "1".into() },
            "sr" => { m.swap_rows(n(1), n(2)); "ok".into() }
            "sc" => { m.swap_columns(n(1), n(2), n(3)); "ok".into() }
            "aa" => { m.add_assign_rows(n(1), n(2), n(3)); "ok".into() }
            "co" => m.count_ones(n(1), n(2), n(3)).to_string(),
            "it" => { let mut v: Vec<usize> = m.get_row_iter(n(1), n(2), n(3)).filter(|(_, o)| *o != Octet::zero()).map(|(c, _)| c).collect(); v.sort(); list(&v) }
            "oc" => { let mut v = m.get_ones_in_column(n(1), n(2), n(3)); v.sort(); list(&v) }
            "sro" => { let b = m.get_sub_row_as_octets(n(1), n(2)); let bits = raptorq::verif::verif_kernels::to_octet_vec(&b);
                       // re-pack canonically: length:words
                       let len = bits.len(); let nw = (len + 63) / 64; let pad = (64 - len % 64) % 64; let mut words = vec![0u64; nw];
                       for (i, x) in bits.iter().enumerate() { if *x == 1 { let q = pad + i; words[q / 64] |= 1u64 << (q % 64); } }
                       format!("{len}:{}", list(&words)) }
            "nz" => { let mut v = m.query_non_zero_columns(n(1), n(2)); v.sort(); list(&v) }
            "fr" => { m.hint_column_dense_and_frozen(n(1)); "ok".into() }
            "en" => { m.enable_column_access_acceleration(); "ok".into() }
            "di" => { m.disable_column_access_acceleration(); "ok".into() }
            "rs" => { m.resize(n(1), n(2)); "ok".into() }
            "dims" => format!("{}x{}", m.height(), m.width()),
            _ => unreachable!(),
        };
        out.push(tok);
    }
    out
}

fn queries(sh: &Shadow, rng: &mut Rng, ops: &mut Vec<String>, count: usize) {
    for _ in 0..count {
        let r = rng.below(sh.h as u64) as usize;
        let fd = sh.first_dense();
        match rng.below(8) {
            0 | 1 => { let c = rng.below(sh.w as u64) as usize; if sh.defined(r, c) { ops.push(format!("g:{r}:{c}")); } }
            2 => if fd > 0 && sh.row_clean(r) { let a = rng.below(fd as u64 + 1) as usize; let b = rng.range(a as u64, fd as u64) as usize; ops.push(format!("co:{r}:{a}:{b}")); }
            3 => if fd > 0 && sh.row_clean(r) { let a = rng.below(fd as u64 + 1) as usize; let b = rng.range(a as u64, fd as u64) as usize; if b > a || rng.chance(1, 3) { ops.push(format!("it:{r}:{a}:{b}")); } }
            4 => if sh.dense > 0 && sh.defined(r, fd) { ops.push(format!("sro:{r}:{fd}")); }
            5 => if sh.dense > 0 && sh.defined(r, fd) { ops.push(format!("nz:{r}:{fd}")); }
            6 => if sh.indexed && fd > 0 { let c = rng.below(fd as u64) as usize; if sh.col_valid[c] && (0..sh.h).all(|r| sh.row_clean(r)) { let a = rng.below(sh.h as u64) as usize; let b = rng.range(a as u64, sh.h as u64) as usize; ops.push(format!("oc:{c}:{a}:{b}")); } }
            _ => ops.push("dims".into()),
        }
    }
}

pub fn matrices(rec: &mut Recorder, rng: &mut Rng, thorough: bool) {
    let widths: Vec<usize> = vec![1, 2, 3, 7, 8, 31, 62, 63, 64, 65, 66, 100, 126, 127, 128, 129, 130, 140, 191, 192, 193, 200, 257, 270];
    let n = if thorough { 1500 } else { 220 };
    for it in 0..n {
        let mut w = if it < 2 * widths.len() { widths[it % widths.len()] } else if rng.chance(1, 2) { *rng.pick(&widths) } else { rng.range(1, if thorough { 300 } else { 140 }) as usize };
        // a few very wide matrices (rows of 8 and more 64-bit words: block-wise row kernels)
        if it % (if thorough { 25 } else { 55 }) == 7 { w = *rng.pick(&[449usize, 511, 512, 513, 576, 577, 640, 1025]); rec.count("very_wide_matrices"); }
        // directed family: rows never swapped, a same-width shrink in the first un-indexed phase, the index rebuilt, and
        // the dense tail then pushed across a word boundary (storage that survived the shrink meets the re-spacing code)
        let directed = it % 8 == 5;
        if directed { w = *rng.pick(&[70usize, 100, 129, 140]); rec.count("directed_shrink_reindex_freeze"); }
        let h = if directed { w + rng.range(8, 24) as usize } else { w + match rng.below(4) { 0 => 0, 1 => 1, _ => rng.below(20) as usize } };
        // hints just below / at a multiple of 64 (with sparse columns left to freeze): the dense tail then
        // grows across a word boundary (64->65, 128->129, 192->193, 256->257 columns) and is re-spaced
        let top = if w >= 2 { (w - 1) / 64 * 64 } else { 0 };
        let hint = match rng.below(11) { 0 => 0, 1 => 1, 2 => 63.min(w), 3 => 64.min(w), 4 => 65.min(w), 5 => w,
            6 => top, 7 => top.saturating_sub(1), 8 => if top >= 128 && rng.chance(1, 2) { top - 64 } else { top },
            _ => rng.below(w as u64 + 1) as usize };
        let hint = if directed { 64 - rng.range(1, 6) as usize } else { hint };
        let mut sh = Shadow { h, w, dense: hint, bits: vec![vec![false; w]; h], indexed: false, col_valid: vec![true; w], tainted: vec![None; h] };
        let mut ops: Vec<String> = vec![];
        // ---- construction
        let fills = rng.range(1, (h * w / 3).max(2) as u64) as usize;
        for _ in 0..fills.min(if thorough { 4000 } else { 900 }) {
            let (r, c) = (rng.below(h as u64) as usize, rng.below(w as u64) as usize);
            let v = !rng.chance(1, 6);
            sh.bits[r][c] = v;
            ops.push(format!("s:{r}:{c}:{}", v as u8));
        }
        // every row gets at least one sparse one with some probability (solver-like shape)
        queries(&sh, rng, &mut ops, 12);
        // the pair (indexed phase, un-indexed phase) may repeat: the interface allows the column index to be
        // rebuilt after an un-indexed phase (also after a resize that kept the dense tail)
        let cycles = if directed { 2 } else if rng.chance(1, 3) { rng.range(2, 3) as usize } else { 1 };
        let no_row_swaps = directed || rng.chance(1, 3);
        for cycle in 0..cycles {
        // ---- indexed phase
        // (the column index is keyed by physical column but sized by the current height - `ImmutableListMapBuilder::new(self.height)`:
        //  rebuilding it needs height >= the original width, the shape the interface is specified for)
        if sh.first_dense() > 0 && sh.any_sparse_one() && sh.h >= w && (cycle > 0 || rng.chance(4, 5)) {
            ops.push("en".into());
            sh.indexed = true;
            // (the crate's debug_indexed_column_valid bookkeeping is never reset by a rebuild: a column eliminated
            //  in an earlier indexed phase stays excluded from get_ones_in_column - kept as the interface's rule)
            if cycle > 0 {
                rec.count("reindexed_after_unindexed_phase");
                // a later indexed phase: push the dense tail across the next word boundary when it is close
                let to_go = 64 - sh.dense % 64;
                if sh.dense > 0 && to_go <= 8 && sh.first_dense() > to_go {
                    for _ in 0..to_go {
                        let fd = sh.first_dense();
                        sh.dense += 1;
                        ops.push(format!("fr:{}", fd - 1));
                    }
                    let nfd = sh.first_dense();
                    for r in 0..sh.h { if sh.defined(r, nfd) { ops.push(format!("sro:{r}:{nfd}")); } if r % 7 == 3 { for c in 0..sh.w { if sh.defined(r, c) && (c + 3 >= nfd || c < 2) { ops.push(format!("g:{r}:{c}")); } } } }
                    rec.count("reindexed_freeze_crosses_word_boundary");
                }
            }
            let steps = rng.range(1, 30) as usize;
            for _ in 0..steps {
                let fd = sh.first_dense();
                match rng.below(7) {
                    0 => if !no_row_swaps { let (i, j) = (rng.below(sh.h as u64) as usize, rng.below(sh.h as u64) as usize); sh.bits.swap(i, j); sh.tainted.swap(i, j); ops.push(format!("sr:{i}:{j}")); }
                    1 => if fd >= 2 {
                        let (i, j) = (rng.below(fd as u64) as usize, rng.below(fd as u64) as usize);
                        // start_row_hint: rows above it must have equal values in the two columns
                        let mut hintrow = 0;
                        if rng.chance(1, 2) { while hintrow < sh.h && sh.bits[hintrow][i] == sh.bits[hintrow][j] { hintrow += 1; } hintrow = rng.below(hintrow as u64 + 1) as usize; }
                        for r in 0..sh.h { sh.bits[r].swap(i, j); }
                        sh.col_valid.swap(i, j);
                        ops.push(format!("sc:{i}:{j}:{hintrow}"));
                    }
                    2 | 3 => {
                        // single-column elimination: src has exactly one sparse one, dest has a one there
                        let cands: Vec<usize> = (0..sh.h).filter(|r| sh.row_clean(*r) && sh.sparse_ones(*r).len() == 1).collect();
                        if let Some(&src) = cands.get(rng.below(cands.len().max(1) as u64) as usize) {
                            let c = sh.sparse_ones(src)[0];
                            let dests: Vec<usize> = (0..sh.h).filter(|r| *r != src && sh.row_clean(*r) && sh.bits[*r][c]).collect();
                            if let Some(&dest) = dests.get(rng.below(dests.len().max(1) as u64) as usize) {
                                for x in 0..sh.w { let v = sh.bits[src][x]; sh.bits[dest][x] ^= v; }
                                sh.col_valid[c] = false;
                                ops.push(format!("aa:{dest}:{src}:0"));
                            }
                        }
                    }
                    4 => if fd >= 1 {
                        // freeze the last sparse column (sometimes a burst, to cross a word boundary of the dense tail)
                        let burst = if rng.chance(1, 3) { rng.range(2, 4) as usize } else { 1 };
                        for b in 0..burst.min(fd) {
                            sh.dense += 1;
                            ops.push(format!("fr:{}", fd - 1 - b));
                            if sh.dense % 64 == 1 && sh.dense > 64 { rec.count("freeze_crosses_word_boundary_ge128"); }
                            else if sh.dense % 64 == 1 { rec.count("freeze_crosses_word_boundary"); }
                            // the dense tail was re-spaced: read the whole tail of *every* row
                            if sh.dense % 64 == 1 { let nfd = sh.first_dense(); for r in 0..sh.h { if sh.defined(r, nfd) { ops.push(format!("sro:{r}:{nfd}")); } } }
                            if b + 1 < burst.min(fd) { queries(&sh, rng, &mut ops, 1); }
                        }
                    }
                    5 => if sh.dense > 0 { let (r, c) = (rng.below(sh.h as u64) as usize, fd + rng.below(sh.dense as u64) as usize); let v = rng.chance(1, 2); sh.bits[r][c] = v; ops.push(format!("s:{r}:{c}:{}", v as u8)); }
                    _ => {}
                }
                queries(&sh, rng, &mut ops, 2);
            }
            ops.push("di".into());
            sh.indexed = false;
        }
        // ---- un-indexed phase
        if directed && cycle == 0 && sh.h > w {
            let nh = rng.range(w as u64, sh.h as u64 - 1) as usize;
            sh.bits.truncate(nh); sh.tainted.truncate(nh); sh.h = nh;
            ops.push(format!("rs:{nh}:{}", sh.w));
            queries(&sh, rng, &mut ops, 6);
        }
        let steps = rng.range(0, 20) as usize;
        for _ in 0..steps {
            let fd = sh.first_dense();
            match rng.below(6) {
                0 => if !no_row_swaps { let (i, j) = (rng.below(sh.h as u64) as usize, rng.below(sh.h as u64) as usize); sh.bits.swap(i, j); sh.tainted.swap(i, j); ops.push(format!("sr:{i}:{j}")); }
                1 | 2 => if sh.h >= 2 {
                    let dest = rng.below(sh.h as u64) as usize;
                    let mut src = rng.below(sh.h as u64) as usize;
                    if src == dest { src = (dest + 1) % sh.h; }
                    let partial = rng.chance(1, 4) && fd > 0;
                    if !partial && !sh.row_clean(src) { continue; }
                    for x in 0..sh.w { let v = sh.bits[src][x]; sh.bits[dest][x] ^= v; }
                    if partial { sh.tainted[dest] = Some(sh.tainted[dest].map_or(fd, |b| b.max(fd))); }
                    else if let Some(b) = sh.tainted[src] { sh.tainted[dest] = Some(sh.tainted[dest].map_or(b, |x| x.max(b))); }
                    ops.push(format!("aa:{dest}:{src}:{}", if partial { fd } else { 0 }));
                }
                3 => if fd >= 2 && (0..sh.h).all(|r| sh.row_clean(r)) {
                    let (i, j) = (rng.below(fd as u64) as usize, rng.below(fd as u64) as usize);
                    for r in 0..sh.h { sh.bits[r].swap(i, j); }
                    sh.col_valid.swap(i, j);
                    ops.push(format!("sc:{i}:{j}:0"));
                }
                4 => if rng.chance(1, 3) {
                    // resize: same width, or drop at least all dense columns
                    let nh = rng.range(1.max(sh.h as u64 / 2), sh.h as u64) as usize;
                    let nw = if rng.chance(1, 2) || fd == 0 { sh.w } else { rng.range(1, fd as u64) as usize };
                    for r in 0..sh.h { sh.bits[r].truncate(nw); }
                    sh.bits.truncate(nh);
                    sh.tainted.truncate(nh);
                    if nw < sh.w { sh.dense = 0; for t in sh.tainted.iter_mut() { if let Some(b) = t { *b = (*b).min(nw); } } }
                    sh.h = nh; sh.w = nw;
                    ops.push(format!("rs:{nh}:{nw}"));
                }
                _ => {}
            }
            queries(&sh, rng, &mut ops, 3);
        }
        }
        // final sweep: every defined cell of a few rows, and the whole last row through the iterator
        for _ in 0..3 { let r = rng.below(sh.h as u64) as usize; for c in 0..sh.w { if sh.defined(r, c) { ops.push(format!("g:{r}:{c}")); } } }
        let fd = sh.first_dense();
        if fd > 0 && sh.row_clean(sh.h - 1) { ops.push(format!("it:{}:0:{fd}", sh.h - 1)); ops.push(format!("co:{}:0:{fd}", sh.h - 1)); }
        // ---- run on both back-ends
        let opstr = ops.join(";");
        let (o1, o2) = (ops.clone(), ops.clone());
        let rd = guarded(move || { let mut m = DenseBinaryMatrix::new(h, w, hint); run_ops(&mut m, &o1) });
        let rs = guarded(move || { let mut m = SparseBinaryMatrix::new(h, w, hint); run_ops(&mut m, &o2) });
        // the dense back-end accepts wider ranges; on sequences admissible for both they must agree
        match (&rd, &rs) {
            (Ok(a), Ok(b)) => if a != b {
                let i = a.iter().zip(b.iter()).position(|(x, y)| x != y).unwrap_or(0);
                rec.impl_violation(format!("dense and sparse matrices answer differently: h={h} w={w} hint={hint} op #{i} `{}` dense={} sparse={} (ops: {})", ops[i], a[i], b[i], &opstr[..opstr.len().min(600)]));
            },
            (Err(_), _) => rec.impl_violation(format!("DenseBinaryMatrix panics on an admissible sequence: h={h} w={w} ops: {}", &opstr[..opstr.len().min(600)])),
            (_, Err(_)) => rec.impl_violation(format!("SparseBinaryMatrix panics on an admissible sequence: h={h} w={w} hint={hint} ops: {}", &opstr[..opstr.len().min(600)])),
        }
        let show = |r: &Result<Vec<String>, String>| r.as_ref().map(|v| v.join(" ")).unwrap_or("err".into());
        rec.put(&format!("mat spec {h} {w} {opstr}"), &show(&rd));
        rec.put(&format!("mat dense {h} {w} {opstr}"), &show(&rd));
        rec.put(&format!("mat spec {h} {w} {opstr}"), &show(&rs));
        rec.put(&format!("mat sparse{hint} {h} {w} {opstr}"), &show(&rs));
        // dense-only continuation: the trait puts no precondition on these for the bit-packed matrix (the sparse
        // one asserts start_col == first dense column and refuses most narrowings): any narrowing resize - also to a
        // width that is not a multiple of 64, which leaves stale bits in the last word - and row queries from any column
        {
            let mut dops = ops.clone();
            if sh.w >= 2 && rng.chance(3, 4) {
                let nh = rng.range(1.max(sh.h as u64 / 2), sh.h as u64) as usize;
                let nw = if rng.chance(1, 2) && sh.w > 66 { (sh.w - 1) / 64 * 64 + 1 + rng.below(((sh.w - 1) % 64).max(1) as u64) as usize } else { rng.range(1, sh.w as u64) as usize }.min(sh.w);
                for r in 0..sh.h { sh.bits[r].truncate(nw); }
                sh.bits.truncate(nh); sh.tainted.truncate(nh);
                for t in sh.tainted.iter_mut() { if let Some(b) = t { *b = (*b).min(nw); } }
                if nw < sh.w { sh.dense = 0; }
                sh.h = nh; sh.w = nw;
                dops.push(format!("rs:{nh}:{nw}"));
                rec.count("dense_only_narrowing");
            }
            for _ in 0..12 {
                let r = rng.below(sh.h as u64) as usize;
                let c = rng.below(sh.w as u64 + 1) as usize;
                if c < sh.w && !sh.defined(r, c) { continue; }
                if c == sh.w && !sh.row_clean(r) { continue; }
                match rng.below(4) {
                    0 => dops.push(format!("nz:{r}:{c}")),
                    1 => if c < sh.w { dops.push(format!("sro:{r}:{c}")) },
                    2 => { let b = rng.range(c as u64, sh.w as u64) as usize; dops.push(format!("co:{r}:{c}:{b}")); }
                    _ => { let b = rng.range(c as u64, sh.w as u64) as usize; dops.push(format!("it:{r}:{c}:{b}")); }
                }
            }
            let dopstr = dops.join(";");
            let o3 = dops.clone();
            let rdd = guarded(move || { let mut m = DenseBinaryMatrix::new(h, w, hint); run_ops(&mut m, &o3) });
            if rdd.is_err() { rec.impl_violation(format!("DenseBinaryMatrix panics on an admissible sequence: h={h} w={w} ops: {}", &dopstr[..dopstr.len().min(600)])); }
            rec.put(&format!("mat spec {h} {w} {dopstr}"), &show(&rdd));
            rec.put(&format!("mat dense {h} {w} {dopstr}"), &show(&rdd));
            rec.count("dense_only_sequences");
        }
        rec.count("sequences");
        rec.add("ops", ops.len() as u64);
        if hint == 0 && opstr.contains(";fr:") { rec.count("freeze_from_zero_dense_columns"); }
        if opstr.contains(";rs:") { rec.count("with_resize"); }
        if opstr.contains(";en") { rec.count("with_indexed_phase"); }
    }
    // the interface's last-row / full-width corner (repaired defect C16-a) and empty ranges
    for (h, w) in [(1usize, 64usize), (2, 64), (3, 128), (70, 64)] {
        let r = guarded(move || { let m = DenseBinaryMatrix::new(h, w, 0); m.get_row_iter(h - 1, 0, w).filter(|(_, o)| *o != Octet::zero()).count() });
        if r != Ok(0) { rec.impl_violation(format!("DenseBinaryMatrix::new({h},{w},0).get_row_iter({},0,{w}) fails", h - 1)); }
        rec.put(&format!("mat dense {h} {w} it:{}:0:{w}", h - 1), &r.map(|_| "-".to_string()).unwrap_or("err".into()));
    }
    {
        let r = guarded(|| { let mut m = DenseBinaryMatrix::new(70, 70, 0); m.resize(64, 64); m.get_row_iter(63, 0, 64).count() });
        if r != Ok(64) { rec.impl_violation("DenseBinaryMatrix::new(70,70,0); resize(64,64); get_row_iter(63,0,64) fails".into()); }
        rec.put("mat dense 70 70 rs:64:64;it:63:0:64", &r.map(|_| "ok -".to_string()).unwrap_or("err".into()));
    }
}
