// Engine E5: the process-wide plan cache under concurrency (C17). Real threads are parked at the
// yield hook between the lookup and the insert critical sections and released one step at a time
// by a scheduler that plays a seeded schedule; after every event the cache snapshot (key set, FIFO
// order, each plan's own symbol count) and the thread states are recorded.
use crate::util::*;
use raptorq::verif::verif_cache as vc;
use raptorq::{ObjectTransmissionInformation as Oti, SourceBlockEncoder, SourceBlockEncodingPlan};
use std::collections::HashMap;
use std::sync::mpsc::{Receiver, Sender, channel};
use std::sync::{Arc, Condvar, Mutex, OnceLock};
use std::thread::ThreadId;

struct Gate {
    tid: usize,
    permits: Mutex<u32>,
    cv: Condvar,
    tx: Mutex<Sender<Msg>>,
}

enum Msg {
    Arrived(usize, u8),
    Finished(usize, u16, bool),
}

fn gates() -> &'static Mutex<HashMap<ThreadId, Arc<Gate>>> {
    static G: OnceLock<Mutex<HashMap<ThreadId, Arc<Gate>>>> = OnceLock::new();
    G.get_or_init(|| Mutex::new(HashMap::new()))
}

fn yield_hook(_k: u16, phase: u8) {
    let gate = gates().lock().unwrap().get(&std::thread::current().id()).cloned();
    if let Some(g) = gate {
        g.tx.lock().unwrap().send(Msg::Arrived(g.tid, phase)).unwrap();
        let mut p = g.permits.lock().unwrap();
        while *p == 0 {
            p = g.cv.wait(p).unwrap();
        }
        *p -= 1;
    }
}

struct Pool {
    cmd: Vec<Sender<Option<u16>>>,
    gates: Vec<Arc<Gate>>,
    rx: Receiver<Msg>,
    states: Vec<String>,
    handles: Vec<std::thread::JoinHandle<()>>,
}

impl Pool {
    fn new(n: usize) -> Pool {
        let (tx, rx) = channel::<Msg>();
        let mut cmd = vec![];
        let mut gs = vec![];
        let mut handles = vec![];
        for tid in 0..n {
            let (ctx, crx) = channel::<Option<u16>>();
            let gate = Arc::new(Gate { tid, permits: Mutex::new(0), cv: Condvar::new(), tx: Mutex::new(tx.clone()) });
            let g2 = gate.clone();
            let tx2 = tx.clone();
            handles.push(std::thread::spawn(move || {
                gates().lock().unwrap().insert(std::thread::current().id(), g2);
                while let Ok(Some(k)) = crx.recv() {
                    let plan = vc::get_or_generate(k);
                    let fresh = SourceBlockEncodingPlan::generate(k);
                    let same = plan == fresh;
                    tx2.send(Msg::Finished(tid, plan.verif_source_symbol_count(), same)).unwrap();
                }
            }));
            cmd.push(ctx);
            gs.push(gate);
        }
        Pool { cmd, gates: gs, rx, states: vec!["idle".into(); n], handles }
    }
    fn wait(&mut self, tid: usize, k: u16, rec: &mut Recorder) {
        match self.rx.recv().unwrap() {
            Msg::Arrived(t, phase) => {
                assert_eq!(t, tid);
                self.states[tid] = match phase { 0 => format!("L{k}"), 1 => format!("G{k}"), _ => format!("I{k}") };
            }
            Msg::Finished(t, count, same) => {
                assert_eq!(t, tid);
                if !same { rec.impl_violation(format!("request for K={k} returned a plan that differs from a freshly generated one")); }
                if count != k { rec.impl_violation(format!("request for K={k} returned a plan generated for {count} symbols")); }
                self.states[tid] = format!("D{k}={count}");
            }
        }
    }
    // returns false when the event does not apply (no-op, as in the model)
    fn event(&mut self, ev: &str, cur: &mut Vec<u16>, rec: &mut Recorder) {
        let p: Vec<&str> = ev.split(':').collect();
        let tid: usize = p[1].parse().unwrap();
        if tid >= self.states.len() { return; }
        if p[0] == "s" {
            let k: u16 = p[2].parse().unwrap();
            if self.states[tid] == "idle" || self.states[tid].starts_with('D') {
                cur[tid] = k;
                self.cmd[tid].send(Some(k)).unwrap();
                self.wait(tid, k, rec);
            }
        } else if !(self.states[tid] == "idle" || self.states[tid].starts_with('D')) {
            {
                let mut pm = self.gates[tid].permits.lock().unwrap();
                *pm += 1;
                self.gates[tid].cv.notify_all();
            }
            let k = cur[tid];
            self.wait(tid, k, rec);
        }
    }
    fn snapshot(&self) -> String {
        let (keys, order, counts) = vc::snapshot();
        format!("{}|{}|{}|{}", list(&keys), list(&order), if counts.is_empty() { "-".into() } else { counts.iter().map(|(k, c)| format!("{k}={c}")).collect::<Vec<_>>().join(",") }, self.states.join(","))
    }
    fn shutdown(mut self) {
        // let every parked thread run to completion, then stop the workers
        for tid in 0..self.states.len() {
            while !(self.states[tid] == "idle" || self.states[tid].starts_with('D')) {
                { let mut pm = self.gates[tid].permits.lock().unwrap(); *pm += 1; self.gates[tid].cv.notify_all(); }
                match self.rx.recv().unwrap() {
                    Msg::Arrived(t, ph) => self.states[t] = format!("X{ph}"),
                    Msg::Finished(t, _, _) => self.states[t] = "D".into(),
                }
            }
        }
        for c in &self.cmd { let _ = c.send(None); }
        for h in self.handles.drain(..) { let _ = h.join(); }
    }
}

fn interleavings(a: usize, b: usize) -> Vec<Vec<usize>> {
    // all merges of a steps of thread 0 and b steps of thread 1
    if a == 0 { return vec![vec![1; b]]; }
    if b == 0 { return vec![vec![0; a]]; }
    let mut out = vec![];
    for mut v in interleavings(a - 1, b) { v.insert(0, 0); out.push(v); }
    for mut v in interleavings(a, b - 1) { v.insert(0, 1); out.push(v); }
    out
}

pub fn cache(rec: &mut Recorder, rng: &mut Rng, thorough: bool) {
    vc::set_yield(Some(Box::new(yield_hook)));
    let cap = vc::CAPACITY;
    let mut schedules: Vec<(usize, Vec<String>)> = vec![];
    let seq = |tid: usize, k: u16| -> Vec<String> { vec![format!("s:{tid}:{k}"), format!("t:{tid}"), format!("t:{tid}"), format!("t:{tid}")] };
    // 1. two threads, same missing K, every interleaving of their three steps
    for il in interleavings(3, 3) {
        let k = rng.range(10, 40) as u16;
        let mut ev = vec![format!("s:0:{k}"), format!("s:1:{k}")];
        ev.extend(il.iter().map(|t| format!("t:{t}")));
        ev.extend(seq(2, k)); // a later request hits
        schedules.push((3, ev));
    }
    // 2. inserts racing eviction with the cache filled to cap-1, cap, cap+1 entries
    for fill in [cap - 1, cap, cap + 1] {
        for variant in 0..(if thorough { 6 } else { 2 }) {
            let mut ev = vec![];
            for i in 0..fill { ev.extend(seq(0, 1 + i as u16)); }
            let (ka, kb) = (200 + variant as u16, if variant % 2 == 0 { 200 + variant as u16 } else { 300 + variant as u16 });
            ev.push(format!("s:1:{ka}")); ev.push(format!("s:2:{kb}"));
            let mut order = vec![1, 1, 1, 2, 2, 2];
            rng.shuffle(&mut order);
            ev.extend(order.iter().map(|t| format!("t:{t}")));
            // re-request the oldest key (evicted or not) and the newest
            ev.extend(seq(3, 1)); ev.extend(seq(3, ka));
            schedules.push((4, ev));
        }
    }
    // 3. a lost race leaves no trace: two threads miss on the same K, then more than `cap` further sizes
    {
        let mut ev = vec!["s:0:50".to_string(), "s:1:50".into(), "t:0".into(), "t:1".into(), "t:0".into(), "t:1".into(), "t:0".into(), "t:1".into()];
        for i in 0..(cap + 6) { ev.extend(seq(2, 60 + i as u16)); }
        ev.extend(seq(3, 50));
        schedules.push((4, ev));
    }
    // 4. random schedules: few keys, many threads
    for _ in 0..(if thorough { 200 } else { 25 }) {
        let n = rng.range(2, 5) as usize;
        let pool_keys: Vec<u16> = (0..rng.range(1, 6)).map(|_| rng.range(1, 90) as u16).collect();
        let mut ev = vec![];
        for _ in 0..rng.range(10, 60) {
            let tid = rng.below(n as u64) as usize;
            if rng.chance(1, 3) { ev.push(format!("s:{tid}:{}", rng.pick(&pool_keys))); } else { ev.push(format!("t:{tid}")); }
        }
        schedules.push((n, ev));
    }
    for (n, evs) in schedules {
        vc::clear();
        let mut pool = Pool::new(n);
        let mut cur = vec![0u16; n];
        let mut outs = vec![];
        let mut maxlen = 0;
        for ev in &evs {
            pool.event(ev, &mut cur, rec);
            let (keys, order, counts) = vc::snapshot();
            maxlen = maxlen.max(keys.len());
            // the property itself, directly on the implementation
            if keys.len() > cap { rec.impl_violation(format!("cache holds {} plans (capacity {cap}) during schedule {}", keys.len(), &evs.join(",")[..200.min(evs.join(",").len())])); }
            let mut so = order.clone(); so.sort(); let dedup = { let mut d = so.clone(); d.dedup(); d.len() == so.len() };
            if so != keys || !dedup { rec.impl_violation(format!("cache map and FIFO queue disagree: keys={} queue={}", list(&keys), list(&order))); }
            if counts.iter().any(|(k, c)| k != c) { rec.impl_violation(format!("cache maps a size to a plan generated for another size: {:?}", counts)); }
            outs.push(pool.snapshot());
        }
        rec.put(&format!("cache {cap} {n} {}", evs.join(",")), &outs.join(" "));
        rec.count("schedules");
        rec.add("events", evs.len() as u64);
        if maxlen >= cap { rec.count("schedules_reaching_capacity"); }
        pool.shutdown();
    }
    vc::set_yield(None);
    // transparency: encoders built through the (now populated) cache equal encoders built without it
    for _ in 0..(if thorough { 200 } else { 30 }) {
        let k = rng.range(1, 120) as u32;
        let t = rng.range(1, 5) as u16;
        let data = rng.bytes(k as usize * t as usize);
        let cfg = Oti::new(k as u64 * t as u64, t, 1, 1, 1);
        let a = SourceBlockEncoder::new(0, &cfg, &data);
        let b = SourceBlockEncoder::verif_new_unplanned(0, &cfg, &data, raptorq::verif::SPARSE_MATRIX_THRESHOLD).unwrap();
        if a != b || a.repair_packets(0, 5) != b.repair_packets(0, 5) { rec.impl_violation(format!("encoder built through the cache differs from the uncached one for K={k}")); }
        rec.count("transparency_pairs");
    }
    // truly concurrent soak (no scheduler): many threads, many sizes; bound and transparency afterwards
    vc::clear();
    let hs: Vec<_> = (0..8u64).map(|i| std::thread::spawn(move || {
        let mut r = Rng::new(1000 + i);
        for _ in 0..300 { let k = r.range(1, 110) as u16; let p = vc::get_or_generate(k); assert_eq!(p.verif_source_symbol_count(), k); }
    })).collect();
    let mut ok = true;
    for h in hs { ok &= h.join().is_ok(); }
    let (keys, order, counts) = vc::snapshot();
    let mut so = order.clone(); so.sort();
    if !ok || keys.len() > cap || so != keys || counts.iter().any(|(k, c)| k != c) {
        rec.impl_violation(format!("after a free-running concurrent soak: {} plans cached (capacity {cap}), queue/map consistent: {}", keys.len(), so == keys));
    }
    rec.count("soak_runs");
    // every public way of building encoders, mixed, for more distinct block sizes than the capacity: the bound holds
    // whichever entry point the plans came through, and the object-level encoders equal the block-level ones
    vc::clear();
    for k in 1u16..=(cap as u16 + 40) {
        let t = 2u16;
        let data = rng.bytes(k as usize * t as usize);
        let cfg = Oti::new(data.len() as u64, t, 1, 1, 1);
        let (d2, d3) = (data.clone(), data.clone());
        let r = guarded(move || {
            let whole = raptorq::Encoder::new(&d2, cfg);
            let via_defaults = raptorq::Encoder::with_defaults(&d3, 8);
            let block = SourceBlockEncoder::new(0, &cfg, &d2);
            let _ = via_defaults.get_encoded_packets(1);
            whole.get_block_encoders()[0] == block && whole.get_block_encoders()[0].repair_packets(0, 3) == block.repair_packets(0, 3)
        });
        if r != Ok(true) { rec.impl_violation(format!("Encoder::new and SourceBlockEncoder::new build different encoders (or panic) for a block of {k} symbols")); }
        let (keys, order, counts) = vc::snapshot();
        let mut so = order.clone(); so.sort();
        if keys.len() > cap || so != keys || counts.iter().any(|(k, c)| k != c) {
            rec.impl_violation(format!("after encoders for {k} distinct block sizes were built through Encoder::new, Encoder::with_defaults and SourceBlockEncoder::new, the shared cache holds {} plans (capacity {cap}); queue/map consistent: {}", keys.len(), so == keys));
            break;
        }
        rec.count("mixed_entry_points");
    }
}
