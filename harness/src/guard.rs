// Buffers placed flush against PROT_NONE guard pages (C12 monitoring). No external crate:
// mmap/mprotect/signal are declared by hand for Linux.
use std::sync::atomic::{AtomicI32, AtomicUsize, Ordering};

unsafe extern "C" {
    fn mmap(addr: *mut u8, len: usize, prot: i32, flags: i32, fd: i32, off: i64) -> *mut u8;
    fn mprotect(addr: *mut u8, len: usize, prot: i32) -> i32;
    fn munmap(addr: *mut u8, len: usize) -> i32;
    fn signal(sig: i32, handler: usize) -> usize;
    fn write(fd: i32, buf: *const u8, n: usize) -> isize;
    fn _exit(code: i32) -> !;
}

const PAGE: usize = 4096;

#[derive(Clone, Copy, Debug, PartialEq)]
pub enum Place {
    EndFlush,        // last byte of the buffer is the last byte before a guard page
    StartFlush,      // first byte directly after a guard page
    Offset(usize),   // start at page start + offset (alignment sweep)
}

pub struct GuardBuf {
    base: *mut u8,
    total: usize,
    ptr: *mut u8,
    len: usize,
}

impl GuardBuf {
    pub fn new(len: usize, place: Place) -> GuardBuf {
        let inner = (len + 64 + PAGE - 1) / PAGE * PAGE + PAGE;
        let total = inner + 2 * PAGE;
        unsafe {
            let base = mmap(std::ptr::null_mut(), total, 3, 0x22, -1, 0);
            assert!(!base.is_null() && base as isize != -1, "mmap failed");
            assert_eq!(mprotect(base, PAGE, 0), 0);
            assert_eq!(mprotect(base.add(total - PAGE), PAGE, 0), 0);
            let ptr = match place {
                Place::EndFlush => base.add(total - PAGE - len),
                Place::StartFlush => base.add(PAGE),
                Place::Offset(o) => base.add(PAGE + PAGE + o),
            };
            GuardBuf { base, total, ptr, len }
        }
    }
    pub fn from(data: &[u8], place: Place) -> GuardBuf {
        let mut g = GuardBuf::new(data.len(), place);
        g.as_mut().copy_from_slice(data);
        g
    }
    pub fn as_mut(&mut self) -> &mut [u8] {
        unsafe { std::slice::from_raw_parts_mut(self.ptr, self.len) }
    }
    pub fn as_ref(&self) -> &[u8] {
        unsafe { std::slice::from_raw_parts(self.ptr, self.len) }
    }
    // bytes around the buffer that must stay untouched (the writable slack between the guards)
    pub fn slack_digest(&self) -> u64 {
        let mut h: u64 = 0;
        unsafe {
            let lo = self.base.add(PAGE);
            let hi = self.base.add(self.total - PAGE);
            let mut p = lo;
            while p < hi {
                if p < self.ptr || p >= self.ptr.add(self.len) {
                    h = h.wrapping_mul(31).wrapping_add(*p as u64);
                }
                p = p.add(1);
            }
        }
        h
    }
}

impl Drop for GuardBuf {
    fn drop(&mut self) {
        unsafe {
            munmap(self.base, self.total);
        }
    }
}

// ---- crash reporting: the case being run is kept in a static buffer; the SIGSEGV/SIGBUS handler
// writes it to the progress fd and exits with code 77.
static CASE_LEN: AtomicUsize = AtomicUsize::new(0);
static mut CASE_BUF: [u8; 512] = [0; 512];
static PROGRESS_FD: AtomicI32 = AtomicI32::new(-1);

extern "C" fn on_fault(_sig: i32) {
    unsafe {
        let fd = PROGRESS_FD.load(Ordering::Relaxed);
        let n = CASE_LEN.load(Ordering::Relaxed);
        let p = std::ptr::addr_of!(CASE_BUF) as *const u8;
        if fd >= 0 {
            write(fd, p, n);
        }
        write(2, p, n);
        _exit(77);
    }
}

pub fn install(progress_path: &str) {
    use std::os::fd::IntoRawFd;
    let f = std::fs::File::create(progress_path).unwrap();
    PROGRESS_FD.store(f.into_raw_fd(), Ordering::Relaxed);
    unsafe {
        signal(11, on_fault as *const () as usize);
        signal(7, on_fault as *const () as usize);
        // SIGABRT: the allocator detected heap corruption (an out-of-bounds write that missed the guard pages)
        signal(6, on_fault as *const () as usize);
    }
}

pub fn set_case(s: &str) {
    let b = s.as_bytes();
    let n = b.len().min(510);
    unsafe {
        let p = std::ptr::addr_of_mut!(CASE_BUF) as *mut u8;
        std::ptr::copy_nonoverlapping(b.as_ptr(), p, n);
        *p.add(n) = b'\n';
    }
    CASE_LEN.store(n + 1, Ordering::Relaxed);
}
