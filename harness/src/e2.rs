// Engine E2: parameters, wire formats, constructor limits, tuples (C13 C19 C14 C15 C05-partition).
use crate::util::*;
use raptorq::verif as rq;
use raptorq::{EncodingPacket, ObjectTransmissionInformation as Oti, PayloadId};

fn oti_str(o: &Oti) -> String {
    format!(
        "{} {} {} {} {}",
        o.transfer_length(),
        o.symbol_size(),
        o.source_blocks(),
        o.sub_blocks(),
        o.symbol_alignment()
    )
}

fn res(r: Result<String, String>) -> String {
    match r {
        Ok(s) => s,
        Err(_) => "err".to_string(),
    }
}

// ---------------------------------------------------------------- C13
pub fn wire(rec: &mut Recorder, rng: &mut Rng, thorough: bool) {
    let edge32 = |rng: &mut Rng| -> u32 {
        let e = [0u32, 1, 2, 255, 256, 257, 65535, 65536, 65537, 0xFF_FFFE, 0xFF_FFFF, 0x80_0000, 0x7F_FFFF, 0x01_0203, 0xFE_FDFC];
        if rng.chance(1, 3) { *rng.pick(&e) } else { rng.logu(24) as u32 & 0xFF_FFFF }
    };
    // payload ids: all 256 sbn x edge esis, all (sbn, high byte) x random low
    let mut pids: Vec<(u8, u32)> = vec![];
    for sbn in 0..=255u8 {
        for _ in 0..(if thorough { 64 } else { 8 }) {
            pids.push((sbn, edge32(rng)));
        }
        for hi in 0..=255u32 {
            if thorough || (hi + sbn as u32) % 16 == 0 {
                pids.push((sbn, (hi << 16) | (rng.next() as u32 & 0xFFFF)));
            }
        }
    }
    for (sbn, esi) in pids {
        let r = guarded(move || {
            let p = PayloadId::new(sbn, esi);
            let ser = p.serialize();
            let d = PayloadId::deserialize(&ser);
            (ser, format!("{} {}", d.source_block_number(), d.encoding_symbol_id()), d == p)
        });
        match r {
            Ok((ser, de, same)) => {
                rec.put(&format!("pid new {sbn} {esi}"), &hex(&ser));
                rec.put(&format!("pid de {}", hex(&ser)), &de);
                if !same {
                    rec.impl_violation(format!("PayloadId round trip sbn={sbn} esi={esi}"));
                }
            }
            Err(_) => {
                rec.put(&format!("pid new {sbn} {esi}"), "err");
                rec.impl_violation(format!("PayloadId new/serialize/deserialize panics for sbn={sbn} esi={esi}"));
            }
        }
        rec.count("pid");
    }
    // refused ESIs
    for esi in [16777216u32, 16777217, u32::MAX, 1 << 31, (1 << 24) + 255] {
        let r = guarded(move || {
            let p = PayloadId::new(3, esi);
            let ser = p.serialize();
            let d = PayloadId::deserialize(&ser);
            (hex(&ser), d.encoding_symbol_id(), d == p)
        });
        // a value the constructor accepts is a representable value: it has to round-trip (the property's own oracle)
        if let Ok((ser, back, same)) = &r {
            if !*same {
                rec.impl_violation(format!("PayloadId::new(3, {esi}) is accepted but does not round-trip: it serialises to {ser} and parses back as ESI {back}"));
            }
        }
        rec.put(&format!("pid new 3 {esi}"), &res(r.map(|x| x.0)));
        rec.count("pid_refused");
    }
    // arbitrary 4-byte buffers: parse, re-serialise
    for _ in 0..(if thorough { 20000 } else { 2000 }) {
        let b = rng.bytes(4);
        let bb = b.clone();
        let r = guarded(move || {
            let d = PayloadId::deserialize(&[bb[0], bb[1], bb[2], bb[3]]);
            (format!("{} {}", d.source_block_number(), d.encoding_symbol_id()), d.serialize() == bb[..])
        });
        match r {
            Ok((de, same)) => {
                rec.put(&format!("pid de {}", hex(&b)), &de);
                if !same {
                    rec.impl_violation(format!("PayloadId re-serialise {}", hex(&b)));
                }
            }
            Err(_) => {
                rec.put(&format!("pid de {}", hex(&b)), "err");
                rec.impl_violation(format!("PayloadId::deserialize panics on {}", hex(&b)));
            }
        }
        rec.count("pid_buf");
    }
    // packets with payload lengths 0..64 and some long ones
    let mut lens: Vec<usize> = (0..=64).collect();
    lens.extend([100, 255, 256, 1000, 1024, 4096]);
    // the largest symbol sizes (T is a 16-bit field) and buffers whose length does not fit 16 bits
    lens.extend([65531, 65532, 65535, 65536, 65540, 131075]);
    for &len in &lens {
        for _ in 0..(if len > 5000 { 1 } else if thorough { 20 } else { 3 }) {
            let sbn = rng.below(256) as u8;
            let esi = edge32(rng);
            let data = rng.bytes(len);
            let data2 = data.clone();
            let r = guarded(move || {
                let pkt = EncodingPacket::new(PayloadId::new(sbn, esi), data2);
                pkt.serialize()
            });
            let ser = match r {
                Ok(ser) => {
                    rec.put(&format!("pkt ser {sbn} {esi} {}", hex(&data)), &hex(&ser));
                    ser
                }
                Err(_) => {
                    rec.put(&format!("pkt ser {sbn} {esi} {}", hex(&data)), "err");
                    rec.impl_violation(format!("EncodingPacket::serialize panics sbn={sbn} esi={esi} len={len}"));
                    continue;
                }
            };
            let ser2 = ser.clone();
            let data3 = data.clone();
            let r = guarded(move || {
                let d = EncodingPacket::deserialize(&ser2);
                let same = d == EncodingPacket::new(PayloadId::new(sbn, esi), data3);
                (format!("{} {} {}", d.payload_id().source_block_number(), d.payload_id().encoding_symbol_id(), hex(d.data())), same)
            });
            match r {
                Ok((de, same)) => {
                    rec.put(&format!("pkt de {}", hex(&ser)), &de);
                    if !same {
                        rec.impl_violation(format!("packet round trip sbn={sbn} esi={esi} len={len}"));
                    }
                }
                Err(_) => {
                    rec.put(&format!("pkt de {}", hex(&ser)), "err");
                    rec.impl_violation(format!("EncodingPacket::deserialize panics on a serialised packet: sbn={sbn} esi={esi} payload length {len}"));
                }
            }
            rec.count("pkt");
        }
    }
    for len in 0..4usize {
        let b = rng.bytes(len);
        let b2 = b.clone();
        let r = guarded(move || {
            let d = EncodingPacket::deserialize(&b2);
            format!("{} {} {}", d.payload_id().source_block_number(), d.payload_id().encoding_symbol_id(), hex(d.data()))
        });
        rec.put(&format!("pkt de {}", hex(&b)), &res(r));
        rec.count("pkt_short");
    }
    // a configuration built from explicit fields serialises to exactly those fields (also N above T/Al, Z above Kt)
    for _ in 0..(if thorough { 5000 } else { 600 }) {
        let al = *rng.pick(&[1u8, 2, 4, 8, 3, 255]);
        let t = (al as u16).saturating_mul(rng.range(1, (65535 / al as u64).min(300)) as u16);
        let z = rng.range(1, 255) as u8;
        let n = match rng.below(4) { 0 => 1, 1 => (t / al as u16).saturating_add(rng.below(3) as u16), 2 => rng.logu(16) as u16, _ => 65535 };
        let f = match rng.below(3) { 0 => rng.range(1, t as u64 * z as u64), 1 => rng.range(0, 5), _ => rng.range(1, t as u64 * z as u64 * 56403) }.min(942574504275);
        let r = guarded(move || { let c = Oti::new(f, t, z, n, al); (c.serialize().to_vec(), Oti::deserialize(&c.serialize()) == c) });
        let want = vec![(f >> 32) as u8, (f >> 24) as u8, (f >> 16) as u8, (f >> 8) as u8, f as u8, 0, (t >> 8) as u8, t as u8, z, (n >> 8) as u8, n as u8, al];
        match r {
            Ok((ser, rt)) => { if ser != want || !rt { rec.impl_violation(format!("ObjectTransmissionInformation::new({f},{t},{z},{n},{al}) serialises to {} instead of the RFC layout {} of these fields (round trip equal: {rt})", hex(&ser), hex(&want))); } }
            Err(_) => rec.impl_violation(format!("ObjectTransmissionInformation::new({f},{t},{z},{n},{al}) (valid) panics in new/serialize")),
        }
        rec.count("oti_from_fields");
    }
    // OTI: random 12-byte buffers (every field within its width by construction), boundary fields
    let fedge = [0u64, 1, 255, 256, 65535, 65536, (1 << 24) - 1, 1 << 24, (1 << 32) - 1, 1 << 32, (1 << 32) + 5, (1 << 40) - 1, 942574504275, 942574504276, 0x0102030405, 0xFFFEFDFCFB];
    let tedge = [0u16, 1, 2, 255, 256, 257, 1024, 65535, 0x0102, 0xFFFE];
    let zedge = [0u8, 1, 2, 127, 128, 255];
    let n = if thorough { 100000 } else { 10000 };
    for it in 0..n {
        let mut b = rng.bytes(12);
        if it % 3 == 0 {
            let f = *rng.pick(&fedge);
            b[0] = (f >> 32) as u8; b[1] = (f >> 24) as u8; b[2] = (f >> 16) as u8; b[3] = (f >> 8) as u8; b[4] = f as u8;
        }
        if it % 5 == 0 {
            let t = *rng.pick(&tedge);
            b[6] = (t >> 8) as u8; b[7] = t as u8;
        }
        if it % 7 == 0 {
            let t = *rng.pick(&tedge);
            b[9] = (t >> 8) as u8; b[10] = t as u8;
        }
        if it % 11 == 0 { b[8] = *rng.pick(&zedge); b[11] = *rng.pick(&zedge); }
        let mut arr = [0u8; 12];
        arr.copy_from_slice(&b);
        let r = guarded(move || {
            let o = Oti::deserialize(&arr);
            let ser = o.serialize();
            let mut expect = arr;
            expect[5] = 0;
            (oti_str(&o), ser, ser == expect, Oti::deserialize(&ser) == o)
        });
        match r {
            Ok((os, ser, reser, rt)) => {
                rec.put(&format!("oti de {}", hex(&b)), &os);
                rec.put(&format!("oti ser {os}"), &hex(&ser));
                if !reser {
                    rec.impl_violation(format!("OTI re-serialise {}", hex(&b)));
                }
                if !rt {
                    rec.impl_violation(format!("OTI round trip {os}"));
                }
            }
            Err(_) => {
                rec.put(&format!("oti de {}", hex(&b)), "err");
                rec.impl_violation(format!("OTI deserialize/serialize panics on {}", hex(&b)));
            }
        }
        rec.count("oti");
    }
}

// ---------------------------------------------------------------- C19
pub fn oti_new(rec: &mut Recorder, rng: &mut Rng, thorough: bool) {
    const FMAX: u64 = 942574504275;
    const KMAX: u64 = 56403;
    let mut cases: Vec<(u64, u16, u8, u16, u8)> = vec![];
    // the recorded defect and neighbours
    for f in [(1u64 << 32) + 5, 1 << 32, (1 << 32) - 1, (1 << 32) + KMAX, (1 << 32) + KMAX + 1, 1 << 33, (1 << 33) + 7, 3 << 32, FMAX, FMAX + 1, FMAX - 1] {
        for t in [1u16, 2, 3, 7, 8, 16, 64, 219, 220, 65535] {
            for z in [1u8, 2, 3, 76, 77, 255] {
                cases.push((f, t, z, 1, 1));
            }
        }
    }
    // every alignment with the symbol sizes at the top of the 16-bit range: the largest multiple of Al, its
    // neighbours, and 65535 itself
    for al in 1..=255u16 {
        let top = 65535 / al * al;
        for t in [top, top.saturating_sub(al), top.saturating_sub(1), 65535u16, 65534, 32768 / al * al, (32768 / al + 1).min(65535 / al) * al] {
            if t == 0 { continue; }
            let z = 1 + (al % 7) as u8;
            cases.push((t as u64 * z as u64 * (1 + al as u64 % 50), t, z, 1, al as u8));
        }
    }
    // around the K'max limit: F = T*Z*56403 + delta
    for _ in 0..(if thorough { 20000 } else { 3000 }) {
        let t = if rng.chance(1, 2) { rng.range(1, 64) as u16 } else { rng.range(1, 65535) as u16 };
        let z = rng.range(1, 255) as u8;
        let base = t as u64 * z as u64 * KMAX;
        let delta = rng.range(0, 3 * t as u64 + 2) as i64 - (t as i64 + 1);
        let f = (base as i64 + delta).max(0) as u64;
        // alignment: a divisor of t mostly
        let al = pick_al(rng, t);
        cases.push((f, t, z, rng.logu(16) as u16, al));
    }
    // quotient wraps: ceil(F/T) near multiples of 2^32
    for _ in 0..(if thorough { 20000 } else { 3000 }) {
        let t = rng.range(1, 219) as u16;
        let m = rng.range(1, (FMAX / t as u64) >> 32).max(1);
        let q = (m << 32) + rng.range(0, 2 * KMAX * 255) - if rng.chance(1, 4) { 1 } else { 0 };
        let f = q.saturating_mul(t as u64).saturating_sub(rng.below(t as u64));
        let z = rng.range(1, 255) as u8;
        cases.push((f, t, z, 1, pick_al(rng, t)));
    }
    // log-uniform random incl. zeros and non-dividing alignments
    for _ in 0..(if thorough { 100000 } else { 10000 }) {
        let f = if rng.chance(1, 20) { rng.next() } else { rng.logu(41) };
        let t = rng.logu(16) as u16;
        let z = rng.logu(8) as u8;
        let n = rng.logu(16) as u16;
        let al = if rng.chance(1, 2) { pick_al(rng, t) } else { rng.logu(8) as u8 };
        cases.push((f, t, z, n, al));
    }
    for (f, t, z, n, al) in cases {
        let r = guarded(move || oti_str(&Oti::new(f, t, z, n, al)));
        let accepted = r.is_ok();
        if let Ok(s) = &r {
            if *s != format!("{f} {t} {z} {n} {al}") {
                rec.impl_violation(format!("Oti::new({f},{t},{z},{n},{al}) reports {s}"));
            }
        }
        rec.put(&format!("oti new {f} {t} {z} {n} {al}"), &res(r));
        // property oracle (exact arithmetic in u128), positive T, Z, Al only
        if t > 0 && z > 0 && al > 0 {
            let kt = (f as u128 + t as u128 - 1) / t as u128;
            let per = (kt + z as u128 - 1) / z as u128;
            let valid = f <= FMAX && t % al as u16 == 0 && per <= KMAX as u128;
            if valid != accepted {
                rec.impl_violation(format!("Oti::new({f},{t},{z},{n},{al}) accepted={accepted} but valid={valid}"));
            }
            rec.count(if valid { "oti_new_valid" } else { "oti_new_invalid" });
            if kt >= (1u128 << 32) { rec.count("oti_new_quotient_ge_2^32"); }
        } else {
            rec.count("oti_new_zero_field");
        }
    }
}

fn pick_al(rng: &mut Rng, t: u16) -> u8 {
    if t == 0 { return rng.range(1, 255) as u8; }
    let divs: Vec<u8> = (1..=255u16).filter(|d| t % d == 0).map(|d| d as u8).collect();
    *rng.pick(&divs)
}

// ---------------------------------------------------------------- C05 (partition only; layout in e3)
pub fn partition(rec: &mut Recorder, rng: &mut Rng, thorough: bool) {
    let n = if thorough { 200000 } else { 20000 };
    for it in 0..n {
        let (i, j) = if it < 2000 {
            ((it / 40) as u32, (it % 40) as u32)
        } else if it % 4 == 0 {
            (rng.next() as u32, rng.logu(32) as u32)
        } else {
            (rng.logu(32) as u32, rng.logu(17) as u32)
        };
        let r = guarded(move || {
            let (a, b, c, d) = raptorq::partition(i, j);
            (a, b, c, d)
        });
        match &r {
            Ok((il, is, jl, js)) => {
                let (i, j) = (i as u64, j as u64);
                let (il, is, jl, js) = (*il as u64, *is as u64, *jl as u64, *js as u64);
                let ok = j > 0
                    && il == (i + j - 1) / j
                    && is == i / j
                    && jl + js == j
                    && il * jl + is * js == i;
                if !ok {
                    rec.impl_violation(format!("partition({i},{j}) = ({il},{is},{jl},{js})"));
                }
                rec.count("partition_ok");
            }
            Err(_) => rec.count("partition_err"),
        }
        rec.put(&format!("par {i} {j}"), &res(r.map(|(a, b, c, d)| format!("{a} {b} {c} {d}"))));
    }
}

// ---------------------------------------------------------------- C14
pub fn gen_params(rec: &mut Recorder, rng: &mut Rng, thorough: bool) {
    let table: Vec<u64> = rq::SYSTEMATIC_INDICES_AND_PARAMETERS.iter().map(|r| r.0 as u64).collect();
    let mut cases: Vec<(u64, u16, u64)> = vec![];
    // recorded defects (before the repairs) and their neighbours
    for ws in [4000u64, 1000, 720, 719, 721, 640, 639] {
        cases.push((10000, 500, ws));
    }
    for ws in [1u64 << 38, (1 << 38) + 3200, 1 << 35, (1 << 35) + 64, (1 << 32) * 8 * 8, (1 << 32) * 64 - 1, (1 << 32) * 64 + 1, u64::MAX, u64::MAX / 2] {
        cases.push((6400, 64, ws));
        cases.push((6400 * 77, 64, ws));
    }
    let pks: Vec<u16> = vec![1, 2, 7, 8, 9, 63, 64, 65, 71, 72, 100, 127, 128, 500, 512, 1000, 1024, 1280, 1500, 4096, 9000, 65535, 65528];
    let n = if thorough { 60000 } else { 6000 };
    for it in 0..n {
        let pk = if it % 3 == 0 { rng.range(1, 65535) as u16 } else { *rng.pick(&pks) };
        let al: u64 = if pk >= 64 { 8 } else { 1 };
        let t = (pk as u64) - (pk as u64 % al);
        if t == 0 { continue; }
        let nmax = t / (al * al);
        // choose a K' row and a sub-block count, then WS at the threshold for (row, n) +- 1
        let kp = *rng.pick(&table);
        let nn = match rng.below(4) { 0 => 1, 1 => nmax.max(1), _ => rng.range(1, nmax.max(1)) };
        let x = (t + al * nn - 1) / (al * nn);
        let thr = kp * al * x;
        let ws = match rng.below(8) {
            0 => thr,
            1 => thr.saturating_sub(1),
            2 => thr + 1,
            3 => thr + rng.below(al * x),
            4 => rng.logu(64),
            5 => (rng.range(1, 1 << 20) << 32).wrapping_mul(al * x).wrapping_add(rng.below(4000)),
            _ => thr + rng.below(thr / 4 + 1),
        };
        // F: around multiples of T and of KL*T
        let f = match rng.below(6) {
            0 => rng.range(1, 4 * t),
            1 => kp * t + rng.range(0, 2) - 1,
            2 => kp * t * rng.range(1, 255) + rng.range(0, 2 * t) - t,
            3 => rng.logu(36),
            4 => 56403 * 255 * t - rng.below(3 * t),
            _ => rng.range(1, 64 * 1024),
        }
        .max(1);
        cases.push((f, pk, ws));
    }
    // degenerate
    for (f, pk, ws) in [(0u64, 1024u16, 1u64 << 20), (100, 0, 1 << 20), (100, 1024, 0), (100, 64, 79), (100, 64, 80), (1, 1, 10), (1, 1, 9)] {
        cases.push((f, pk, ws));
    }
    for (f, pk, ws) in cases {
        let r = guarded(move || oti_str(&Oti::verif_generate_encoding_parameters(f, pk, ws)));
        rec.count(if r.is_ok() { "gen_ok" } else { "gen_err" });
        // property oracle (RFC 4.3 derivation in exact arithmetic)
        let spec = spec_gen(&table, f, pk, ws);
        match (&r, &spec) {
            (Ok(s), Some((t, z, n, al))) => {
                let want = format!("{f} {t} {z} {n} {al}");
                if *s != want {
                    rec.impl_violation(format!("generate_encoding_parameters({f},{pk},{ws}) = {s}, RFC 4.3 gives {want}"));
                }
                rec.count("gen_in_domain");
            }
            (Err(_), Some(v)) => {
                rec.impl_violation(format!("generate_encoding_parameters({f},{pk},{ws}) panics, RFC 4.3 gives {:?}", v));
                rec.count("gen_in_domain");
            }
            _ => rec.count("gen_outside_domain"),
        }
        rec.put(&format!("gen {f} {pk} {ws}"), &res(r));
    }
    // the public default wrappers: with_defaults(F, P) is the derivation at the documented 10 MiB budget,
    // and Encoder::with_defaults uses exactly that configuration
    for it in 0..(if thorough { 3000 } else { 400 }) {
        let pk = if it % 3 == 0 { rng.range(1, 65535) as u16 } else { *rng.pick(&pks) };
        let al: u64 = if pk >= 64 { 8 } else { 1 };
        let t = (pk as u64) - (pk as u64 % al);
        if t == 0 { continue; }
        let f = match rng.below(5) { 0 => rng.range(1, 4 * t), 1 => rng.logu(36).max(1), 2 => rng.range(1, 64 * 1024), 3 => 10 * 1024 * 1024 + rng.below(3 * t), _ => rng.range(1, 56403 * t) };
        let ws = 10 * 1024 * 1024u64;
        let r = guarded(move || oti_str(&Oti::with_defaults(f, pk)));
        if let Some((t2, z, n, al2)) = spec_gen(&table, f, pk, ws) {
            let want = format!("{f} {t2} {z} {n} {al2}");
            match &r {
                Ok(s) if *s != want => rec.impl_violation(format!("ObjectTransmissionInformation::with_defaults({f},{pk}) = {s}, RFC 4.3 at the documented 10 MiB budget gives {want}")),
                Err(_) => rec.impl_violation(format!("ObjectTransmissionInformation::with_defaults({f},{pk}) panics, RFC 4.3 gives {want}")),
                _ => {}
            }
            rec.count("with_defaults_in_domain");
        }
        rec.put(&format!("gen {f} {pk} {ws}"), &res(r));
        // (block sizes kept small: checked builds re-verify the solver's matrix in O(L^3))
        if f <= 20000 && f / t <= (if checked_build() { 150 } else { 1500 }) && it % 4 == 0 {
            let data = rng.bytes(f as usize);
            let r = guarded(move || { let e = raptorq::Encoder::with_defaults(&data, pk); (oti_str(&e.get_config()), oti_str(&Oti::with_defaults(f, pk))) });
            match r {
                Ok((a, b)) => if a != b { rec.impl_violation(format!("Encoder::with_defaults(len {f}, {pk}) is configured {a}, with_defaults gives {b}")); },
                Err(_) => if spec_gen(&table, f, pk, ws).is_some() { rec.impl_violation(format!("Encoder::with_defaults(len {f}, {pk}) panics")); },
            }
            rec.count("encoder_with_defaults");
        }
    }
    // encoder and decoder built from the derived parameters round-trip the object (small objects,
    // tight budgets so that Z > 1 and N > 1 occur)
    for it in 0..(if thorough { 300 } else { 40 }) {
        let pk = *rng.pick(&[64u16, 72, 128, 256, 500, 1024, 16, 33]);
        let al: u64 = if pk >= 64 { 8 } else { 1 };
        let t = (pk as u64) - (pk as u64 % al);
        // checked builds re-verify the solver's matrix in O(L^3): keep blocks small there
        let flen = rng.range(1, if checked_build() { 150 * t } else { 40000 }) as usize;
        let ws = match it % 3 { 0 => 10 * 1024 * 1024, 1 => rng.range(10 * t, 400 * t), _ => rng.range(t * 20, t * 2000) };
        if spec_gen(&table, flen as u64, pk, ws).is_none() { continue; }
        let data = rng.bytes(flen);
        let d2 = data.clone();
        let r = guarded(move || {
            let mut b = raptorq::EncoderBuilder::new();
            b.set_max_packet_size(pk);
            b.set_decoder_memory_requirement(ws);
            let enc = b.build(&d2);
            let cfg = enc.get_config();
            let mut pk = enc.get_encoded_packets(3);
            // drop two source packets per block, shuffle lightly
            let mut i = 0; pk.retain(|p| { i += 1; !(p.payload_id().encoding_symbol_id() < 2 && i % 1 == 0) });
            let mut dec = raptorq::Decoder::new(cfg);
            let mut out = None;
            for p in pk { out = dec.decode(p); if out.is_some() { break; } }
            (oti_str(&cfg), out)
        });
        match r {
            Ok((cfg, Some(out))) => { if out != data { rec.impl_violation(format!("round trip with derived parameters returns wrong bytes: F={flen} P={pk} WS={ws} -> {cfg}")); } rec.count("gen_round_trips"); }
            Ok((cfg, None)) => { rec.count("gen_round_trips_undecoded"); let _ = cfg; }
            Err(_) => rec.impl_violation(format!("encoder/decoder built from derived parameters panic: F={flen} P={pk} WS={ws}")),
        }
    }
    // the public route to a custom budget is the builder: whatever the order and the history of its setters, the
    // configuration it builds is RFC 4.3's for the *last* packet size and the *last* budget given (exact-arithmetic oracle)
    for it in 0..(if thorough { 3000 } else { 400 }) {
        let pk = *rng.pick(&[10u16, 16, 24, 33, 48, 63, 64, 72, 128, 256, 500, 1024, 1400, 4096]);
        let al: u64 = if pk >= 64 { 8 } else { 1 };
        let t = (pk as u64) - (pk as u64 % al);
        let f = rng.range(1, (if checked_build() { 140 } else { 600 }) * t).min(60000);
        let x_nmax = (t + al * (t / (al * al)).max(1) - 1) / (al * (t / (al * al)).max(1));
        let ws = match it % 4 { 0 => 10 * al * x_nmax + rng.below(40 * al * x_nmax), 1 => rng.range(10 * t, 400 * t), 2 => rng.logu(24).max(10 * al * x_nmax), _ => rng.range(t * 20, t * 2000) };
        let want = match spec_gen(&table, f, pk, ws) { Some(w) => w, None => continue };
        let order = rng.below(4);
        let (pk0, ws0) = (*rng.pick(&[16u16, 64, 1024, 9000]), rng.logu(30).max(700_000));
        let data = vec![0x5au8; f as usize];
        let r = guarded(move || {
            let mut b = raptorq::EncoderBuilder::new();
            match order {
                0 => { b.set_max_packet_size(pk); b.set_decoder_memory_requirement(ws); }
                1 => { b.set_decoder_memory_requirement(ws); b.set_max_packet_size(pk); }
                2 => { b.set_decoder_memory_requirement(ws0); b.set_max_packet_size(pk0); b.set_decoder_memory_requirement(ws); b.set_max_packet_size(pk); }
                _ => { b.set_max_packet_size(pk0); b.set_decoder_memory_requirement(ws); b.set_max_packet_size(pk); }
            }
            oti_str(&b.build(&data).get_config())
        });
        let wants = format!("{f} {} {} {} {}", want.0, want.1, want.2, want.3);
        let how = ["packet size then budget", "budget then packet size", "other values first, then budget, then packet size", "another packet size, budget, packet size"][order as usize];
        match &r {
            Ok(s) if *s != wants => rec.impl_violation(format!("EncoderBuilder (setters: {how}) with max_packet_size={pk} decoder_memory_requirement={ws} F={f} builds (F T Z N Al) = {s}, RFC 4.3 gives {wants}")),
            Err(_) => rec.impl_violation(format!("EncoderBuilder (setters: {how}) with max_packet_size={pk} decoder_memory_requirement={ws} F={f} panics, RFC 4.3 gives {wants}")),
            _ => {}
        }
        rec.count("builder_setter_histories");
    }
    // monotonicity in the memory budget (metamorphic, directly on the implementation)
    for _ in 0..(if thorough { 20000 } else { 2000 }) {
        let pk = *rng.pick(&pks);
        let al: u64 = if pk >= 64 { 8 } else { 1 };
        let t = (pk as u64) - (pk as u64 % al);
        let f = rng.range(1, 200 * t * 60);
        let a = rng.logu(50).max(10 * al * ((t + al * (t / (al * al)) - 1) / (al * (t / (al * al)).max(1))).max(1));
        let b = a + rng.logu(50);
        let ra = guarded(move || Oti::verif_generate_encoding_parameters(f, pk, a).source_blocks());
        let rb = guarded(move || Oti::verif_generate_encoding_parameters(f, pk, b).source_blocks());
        if let (Some(_), Some(_)) = (spec_gen(&table, f, pk, a), spec_gen(&table, f, pk, b)) {
            match (ra, rb) {
                (Ok(za), Ok(zb)) => {
                    if zb > za {
                        rec.impl_violation(format!("Z not monotone: F={f} P={pk} WS={a} -> Z={za}, WS={b} -> Z={zb}"));
                    }
                    rec.count("gen_monotone_pairs");
                }
                _ => rec.impl_violation(format!("panic inside the valid domain F={f} P={pk} WS in {{{a},{b}}}")),
            }
        }
    }
}

// RFC 6330 4.3 in exact arithmetic; None when outside the property's domain
// (no K' fits for N_max, Z > 255, or F outside 1..=56403*255*T).
pub fn spec_gen(table: &[u64], f: u64, pk: u16, ws: u64) -> Option<(u64, u64, u64, u64)> {
    if pk == 0 || f == 0 { return None; }
    let al: u128 = if pk >= 64 { 8 } else { 1 };
    let ss = al;
    let pk = pk as u128;
    let t = pk - pk % al;
    if t == 0 { return None; }
    let f = f as u128;
    let ws = ws as u128;
    if f > 56403 * 255 * t { return None; }
    let kt = (f + t - 1) / t;
    let nmax = t / (ss * al);
    if nmax == 0 { return None; }
    let kl = |n: u128| -> Option<u128> {
        let x = (t + al * n - 1) / (al * n);
        let lim = ws / (al * x);
        table.iter().rev().map(|k| *k as u128).find(|k| *k <= lim)
    };
    let klmax = kl(nmax)?;
    let z = (kt + klmax - 1) / klmax;
    if z > 255 || z == 0 { return None; }
    let per = (kt + z - 1) / z;
    let n = (1..=nmax).find(|n| kl(*n).map_or(false, |k| per <= k))?;
    Some((t as u64, z as u64, n as u64, al as u64))
}

// ---------------------------------------------------------------- C15
pub fn params(rec: &mut Recorder, rng: &mut Rng, thorough: bool) {
    // systematic constants for every K (exhaustive), with the property's own consistency checks
    let t2 = &rq::SYSTEMATIC_INDICES_AND_PARAMETERS;
    let checked = checked_build();
    rec.count(if checked { "build_checked" } else { "build_unchecked" });
    for k in 0..=56404u32 {
        let r = guarded(move || {
            format!(
                "{} {} {} {} {} {} {} {}",
                rq::extended_source_block_symbols(k),
                rq::systematic_index(k),
                rq::num_ldpc_symbols(k),
                rq::num_hdpc_symbols(k),
                rq::num_lt_symbols(k),
                rq::num_intermediate_symbols(k),
                rq::num_pi_symbols(k),
                rq::calculate_p1(k)
            )
        });
        if k <= 56403 {
            match &r {
                Ok(_) => {
                    let kp = rq::extended_source_block_symbols(k);
                    let least = t2.iter().map(|r| r.0).filter(|x| *x >= k).min();
                    if Some(kp) != least {
                        rec.impl_violation(format!("K'({k}) = {kp}, least table size is {:?}", least));
                    }
                }
                Err(_) => rec.impl_violation(format!("systematic constants panic for K={k}")),
            }
        }
        rec.put(&format!("sys {k}"), &res(r));
        rec.count("sys");
    }
    // rand / deg directly
    for it in 0..(if thorough { 200000 } else { 30000 }) {
        let y = match it % 5 { 0 => u32::MAX - rng.below(300) as u32, 1 => rng.below(70000) as u32, _ => rng.next() as u32 };
        // unchecked builds wrap where checked builds panic: keep i below the overflow range there
        let i = if it % 7 == 0 { rng.logu(if checked { 32 } else { 24 }) as u32 } else { rng.below(8) as u32 };
        let m = match it % 4 { 0 => 1048576, 1 => rng.range(0, 3) as u32, _ => rng.logu(32) as u32 };
        let r = guarded(move || rq::rand(y, i, m).to_string());
        rec.put(&format!("rnd {y} {i} {m}"), &res(r));
        rec.count("rnd");
    }
    for v in (0..1048700u32).step_by(if thorough { 7 } else { 97 }).chain([5242, 5243, 5244, 529530, 529531, 1017661, 1017662, 1048575, 1048576]) {
        for w in [17u32, 19, 29, 31, 37, 0, 1, 2, 3, 56951] {
            if w < 2 && !checked {
                continue;
            }
            if w > 40 || w < 17 || v % 11 == 0 {
                let r = guarded(move || rq::deg(v, w).to_string());
                rec.put(&format!("deg {v} {w}"), &res(r));
                rec.count("deg");
            }
        }
    }
    // tuples: per sampled K' row, X at both ends of the reachable range, at the historical
    // overflow points, and random; checked against the property's range claims.
    let rows: Vec<usize> = if thorough {
        (0..477).collect()
    } else {
        let mut v: Vec<usize> = vec![0, 1, 2, 476, 475];
        for (i, r) in t2.iter().enumerate() {
            if r.0 == 989 || r.0 == 2195 { v.push(i); }
        }
        for _ in 0..40 { v.push(rng.below(477) as usize); }
        v.sort();
        v.dedup();
        v
    };
    let p1t = rq::p1_table();
    for &ri in &rows {
        let (kp, j, s, h, w) = t2[ri];
        let p1 = p1t[ri].1;
        let l = kp + s + h;
        let p = l - w;
        let top = (1u64 << 24) + kp as u64;
        let mut xs: Vec<u64> = vec![];
        xs.extend(0..(kp as u64 + 300).min(top).min(if thorough { 1 << 30 } else { 1500 }));
        xs.extend(top - 300..top);
        for c in [3158229u64, 8192877] {
            xs.extend(c - 2..=c + 2);
        }
        for _ in 0..(if thorough { 20000 } else { 3000 }) {
            xs.push(rng.below(top));
        }
        // algebraically derived worst cases for this row: X with y = 2^32-1, 2^32-2 (mod 2^32)
        let mut a = 53591u64 + j as u64 * 997;
        if a % 2 == 0 { a += 1; }
        let b = 10267u64 * (j as u64 + 1);
        let ainv = modinv32(a);
        for yy in [0xFFFF_FFFFu64, 0xFFFF_FFFE, 0xFFFF_FFFD, 0, 1] {
            let x = (yy.wrapping_sub(b) & 0xFFFF_FFFF).wrapping_mul(ainv) & 0xFFFF_FFFF;
            if x < top { xs.push(x); rec.count("tuple_y_near_wrap"); }
        }
        for x in xs {
            let x = x as u32;
            let r = guarded(move || rq::intermediate_tuple(x, w, j, p1));
            match &r {
                Ok((d, a, b, d1, a1, b1)) => {
                    let ok = 1 <= *d && *d <= 30.min(w - 2) && 1 <= *a && *a < w && *b < w && (*d1 == 2 || *d1 == 3) && 1 <= *a1 && *a1 < p1 && *b1 < p1;
                    if !ok {
                        rec.impl_violation(format!("tuple out of range K'={kp} X={x}: {:?}", r));
                    }
                }
                Err(e) => rec.impl_violation(format!("intermediate_tuple panics ({e}) K'={kp} X={x}")),
            }
            rec.put(&format!("tup {x} {w} {j} {p1}"), &res(r.map(|(d, a, b, d1, a1, b1)| format!("{d} {a} {b} {d1} {a1} {b1}"))));
            rec.count("tup");
            if x % 5 == 0 || x as u64 >= top - 300 {
                let r = guarded(move || {
                    let t = rq::intermediate_tuple(x, w, j, p1);
                    let mut v = vec![];
                    rq::enc_indices(t, w, p, p1, |i| v.push(i));
                    v
                });
                match &r {
                    Ok(v) => {
                        if v.iter().any(|i| *i >= l as usize) {
                            rec.impl_violation(format!("enc index out of range K'={kp} X={x}"));
                        }
                    }
                    Err(e) => rec.impl_violation(format!("enc_indices panics ({e}) K'={kp} X={x}")),
                }
                rec.put(&format!("enci {kp} {x}"), &res(r.map(|v| list(&v))));
                rec.count("enci");
            }
        }
    }
    // whole-API no-panic at the historical overflow ESIs (checked and unchecked builds)
    for (k, esi) in [(989u32, 3158229u32), (2195, 8192877)] {
        if !thorough && k > 1000 { continue; }
        let r = guarded(move || {
            let data = vec![7u8; k as usize];
            let cfg = Oti::new(k as u64, 1, 1, 1, 1);
            let enc = raptorq::SourceBlockEncoder::new(0, &cfg, &data);
            let pk = enc.repair_packets(esi - k, 1);
            pk[0].data().to_vec()
        });
        if r.is_err() {
            rec.impl_violation(format!("repair_packets panics at K={k} ESI={esi}"));
        }
        rec.count("api_overflow_points");
    }
}

fn modinv32(a: u64) -> u64 {
    let mut x = a;
    for _ in 0..5 {
        x = x.wrapping_mul(2u64.wrapping_sub(a.wrapping_mul(x))) & 0xFFFF_FFFF;
    }
    x
}
