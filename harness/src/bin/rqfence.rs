// rqfence: the crate's heap buffers under an "electric fence" allocator (C12 monitoring).
// Every heap allocation of this process ends flush against a PROT_NONE page (up to its alignment), so a read or a
// write behind a Vec - by raw-pointer code that trusted a length, an index or a caller - faults at once; the
// SIGSEGV handler writes the operation being run to fault.txt and exits 77 (bin/check reports it as a violation
// with that operation as failing input). The workload is small on purpose (each allocation is two mappings):
// valid and *invalid* uses of the matrix, slab, kernel wrappers and decoder entry points - invalid uses may be
// refused by a panic, they may not touch memory outside the buffers.
//   rqfence <tier> <seed> <outdir>
#[path = "../guard.rs"]
#[allow(dead_code)]
mod guard;
#[path = "../util.rs"]
#[allow(dead_code)]
mod util;

use std::alloc::{GlobalAlloc, Layout, System};
use util::*;

unsafe extern "C" {
    fn mmap(addr: *mut u8, len: usize, prot: i32, flags: i32, fd: i32, off: i64) -> *mut u8;
    fn mprotect(addr: *mut u8, len: usize, prot: i32) -> i32;
    fn munmap(addr: *mut u8, len: usize) -> i32;
}
const PAGE: usize = 4096;

struct Fence;
fn geometry(size: usize, align: usize) -> usize {
    // data pages needed so that [end - size rounded down to align, end) fits
    ((size + align + PAGE - 1) / PAGE).max(1)
}
unsafe impl GlobalAlloc for Fence {
    unsafe fn alloc(&self, l: Layout) -> *mut u8 {
        unsafe {
            if l.size() == 0 || l.align() > PAGE { return System.alloc(l); }
            let dp = geometry(l.size(), l.align());
            let total = (dp + 1) * PAGE;
            let base = mmap(std::ptr::null_mut(), total, 3, 0x22, -1, 0);
            if base.is_null() || base as isize == -1 { return std::ptr::null_mut(); }
            if mprotect(base.add(dp * PAGE), PAGE, 0) != 0 { return std::ptr::null_mut(); }
            let end = base as usize + dp * PAGE;
            ((end - l.size()) & !(l.align() - 1)) as *mut u8
        }
    }
    unsafe fn dealloc(&self, p: *mut u8, l: Layout) {
        unsafe {
            if l.size() == 0 || l.align() > PAGE { return System.dealloc(p, l); }
            let dp = geometry(l.size(), l.align());
            let end = (p as usize + l.size() + PAGE - 1) / PAGE * PAGE;
            munmap((end - dp * PAGE) as *mut u8, (dp + 1) * PAGE);
        }
    }
}
#[global_allocator]
static A: Fence = Fence;

use raptorq::{BinaryMatrix, DenseBinaryMatrix, SparseBinaryMatrix};
use raptorq::{Decoder, Encoder, EncodingPacket, ObjectTransmissionInformation as Oti, Octet, SourceBlockDecoder, SourceBlockEncoder, Symbol, SymbolSlab};

// run one operation; a panic is a refusal (fine), a fault ends the process in the handler
fn op(rec: &mut Recorder, what: &str, f: impl FnOnce() + std::panic::UnwindSafe) {
    guard::set_case(&format!("FAULT fence: {what}"));
    let r = guarded(f);
    rec.count(if r.is_ok() { "fence_ops_done" } else { "fence_ops_refused" });
}

fn matrix_ops<T: BinaryMatrix + Clone + std::panic::UnwindSafe + std::panic::RefUnwindSafe>(rec: &mut Recorder, rng: &mut Rng, name: &str, h: usize, w: usize, hint: usize) {
    let mut m = T::new(h, w, hint);
    for _ in 0..(h * w / 4).min(300) { m.set(rng.below(h as u64) as usize, rng.below(w as u64) as usize, Octet::one()); }
    // valid operations
    for _ in 0..12 {
        let (a, b) = (rng.below(h as u64) as usize, rng.below(h as u64) as usize);
        let mut m2 = m.clone();
        op(rec, &format!("{name} {h}x{w} hint {hint}: add_assign_rows({a},{b},0) / swap_rows / count_ones / row queries"), move || {
            if a != b { m2.add_assign_rows(a, b, 0); }
            m2.swap_rows(a, b);
            let _ = m2.count_ones(a, 0, w - hint);
            let _ = m2.get_row_iter(b, 0, w - hint).count();
            if hint > 0 { let _ = m2.get_sub_row_as_octets(a, w - hint); let _ = m2.query_non_zero_columns(b, w - hint); }
        });
    }
    // invalid indices: one past the end and far past the end, for every index parameter
    for bad in [h, h + 1, h + 7] {
        let other = rng.below(h as u64) as usize;
        let mut m2 = m.clone();
        op(rec, &format!("{name} {h}x{w} hint {hint}: add_assign_rows({other},{bad},0) with a source row beyond the matrix"), move || { m2.add_assign_rows(other, bad, 0); std::hint::black_box(m2.get(other, 0)); });
        let mut m2 = m.clone();
        op(rec, &format!("{name} {h}x{w} hint {hint}: add_assign_rows({bad},{other},0) with a destination row beyond the matrix"), move || { m2.add_assign_rows(bad, other, 0); });
        let mut m2 = m.clone();
        op(rec, &format!("{name} {h}x{w} hint {hint}: swap_rows({other},{bad})"), move || { m2.swap_rows(other, bad); std::hint::black_box(m2.get(other, 0)); });
        let m2 = m.clone();
        op(rec, &format!("{name} {h}x{w} hint {hint}: get({bad},0) / count_ones({bad},..) / get_row_iter({bad},..)"), move || { std::hint::black_box(m2.get(bad, 0)); });
        let m2 = m.clone();
        op(rec, &format!("{name} {h}x{w} hint {hint}: count_ones({bad},0,{})", w - hint), move || { std::hint::black_box(m2.count_ones(bad, 0, w - hint)); });
        let m2 = m.clone();
        op(rec, &format!("{name} {h}x{w} hint {hint}: get_row_iter({bad},0,{}).count()", w - hint), move || { std::hint::black_box(m2.get_row_iter(bad, 0, w - hint).count()); });
        let mut m2 = m.clone();
        op(rec, &format!("{name} {h}x{w} hint {hint}: set({bad},0,1)"), move || { m2.set(bad, 0, Octet::one()); });
    }
    for badc in [w, w + 1, w + 64] {
        let r0 = rng.below(h as u64) as usize;
        let m2 = m.clone();
        op(rec, &format!("{name} {h}x{w} hint {hint}: get({r0},{badc})"), move || { std::hint::black_box(m2.get(r0, badc)); });
        let mut m2 = m.clone();
        op(rec, &format!("{name} {h}x{w} hint {hint}: set({r0},{badc},1)"), move || { m2.set(r0, badc, Octet::one()); });
    }
    // shrinking, then everything again on the smaller matrix
    let (nh, nw) = ((h / 2).max(1), w);
    let mut m2 = m.clone();
    op(rec, &format!("{name} {h}x{w} hint {hint}: resize({nh},{nw}) then add_assign_rows on the last rows and one beyond"), move || {
        m2.resize(nh, nw);
        if nh >= 2 { m2.add_assign_rows(nh - 1, nh - 2, 0); }
        let _ = guarded(std::panic::AssertUnwindSafe(|| { let mut m3 = m2.clone(); m3.add_assign_rows(0, nh, 0); }));
    });
}

fn main() {
    let args: Vec<String> = std::env::args().collect();
    let thorough = args.get(1).map(|s| s.as_str()) == Some("thorough");
    let seed: u64 = args.get(2).and_then(|s| s.parse().ok()).unwrap_or(1);
    let outdir = args.get(3).cloned().unwrap_or_else(|| ".".into());
    std::fs::create_dir_all(&outdir).unwrap();
    quiet_panics();
    guard::install(&format!("{outdir}/fault.txt"));
    let mut rec = Recorder::new(&outdir);
    let mut rng = Rng::new(seed ^ 0xFE7CE);
    // matrices: the storage geometries with partial-row slack (height*(width+63))/64 words) and without
    let shapes: Vec<(usize, usize)> = if thorough { vec![(3, 100), (5, 150), (2, 300), (4, 64), (7, 65), (9, 128), (10, 129), (6, 63), (12, 200), (3, 1), (70, 70)] } else { vec![(3, 100), (5, 150), (2, 300), (4, 64), (7, 65), (6, 63)] };
    for (h, w) in shapes {
        matrix_ops::<DenseBinaryMatrix>(&mut rec, &mut rng, "DenseBinaryMatrix", h, w, 0);
        if w >= h { let hint = (w / 3).min(w); matrix_ops::<SparseBinaryMatrix>(&mut rec, &mut rng, "SparseBinaryMatrix", h, w, hint); }
    }
    // slab and symbol wrappers: every length residue, ragged blocks, indices beyond the slab
    for ss in [1usize, 2, 7, 8, 9, 31, 32, 33, 63, 64, 65, 127, 129] {
        let count = 4usize;
        let syms: Vec<Vec<u8>> = (0..count).map(|_| rng.bytes(ss)).collect();
        let mk = { let s = syms.clone(); move || SymbolSlab::from_symbols(s.iter().map(|x| Symbol::new(x.clone())).collect(), ss) };
        for (d, s) in [(0usize, 3usize), (3, 0), (1, 2)] {
            let mk2 = mk.clone();
            op(&mut rec, &format!("SymbolSlab of {count} symbols of {ss} bytes: add_assign({d},{s}), fma({d},{s},7), mulassign_scalar({d},9)"), move || { let mut x = mk2(); x.add_assign(d, s); x.fma(d, s, &Octet::new(7)); x.mulassign_scalar(d, &Octet::new(9)); std::hint::black_box(x.get(d)[0]); });
        }
        for (d, s) in [(0usize, count), (count, 0), (count + 2, 1)] {
            let mk2 = mk.clone();
            op(&mut rec, &format!("SymbolSlab of {count} symbols of {ss} bytes: add_assign({d},{s}) with an index beyond the slab"), move || { let mut x = mk2(); x.add_assign(d, s); });
            let mk2 = mk.clone();
            op(&mut rec, &format!("SymbolSlab of {count} symbols of {ss} bytes: fma({d},{s},7) with an index beyond the slab"), move || { let mut x = mk2(); x.fma(d, s, &Octet::new(7)); });
        }
        for (start, len) in [(3usize, ss + ss / 2 + 1), (4, 1), (2, 2 * ss + 1), (0, 4 * ss + 1), (3, ss)] {
            let mk2 = mk.clone();
            let blk = rng.bytes(len);
            op(&mut rec, &format!("SymbolSlab of {count} symbols of {ss} bytes: copy_block_from({start}, {len} bytes)"), move || { let mut x = mk2(); x.copy_block_from(start, &blk); std::hint::black_box(x.get(0)[0]); });
        }
        let mk2 = mk.clone();
        op(&mut rec, &format!("SymbolSlab of {count} symbols of {ss} bytes: gather([0,3,4])"), move || { let x = mk2(); std::hint::black_box(x.gather(&[0, 3, 4]).len()); });
        let (a, b) = (syms[0].clone(), syms[1].clone());
        op(&mut rec, &format!("Symbol of {ss} bytes: += , mulassign_scalar, fused_addassign_mul_scalar"), move || { let mut x = Symbol::new(a); let y = Symbol::new(b); x += &y; x.mulassign_scalar(&Octet::new(200)); x.fused_addassign_mul_scalar(&y, &Octet::new(3)); std::hint::black_box(x.as_bytes()[0]); });
        for delta in [1usize, 30, 64] {
            let (a, b) = (rng.bytes(ss + delta), rng.bytes(ss));
            op(&mut rec, &format!("Symbol of {} bytes: fused_addassign_mul_scalar with a Symbol of {ss} bytes (shorter source)", ss + delta), move || { let mut x = Symbol::new(a); let y = Symbol::new(b); x.fused_addassign_mul_scalar(&y, &Octet::new(5)); std::hint::black_box(x.as_bytes()[0]); });
            let (a, b) = (rng.bytes(ss), rng.bytes(ss + delta));
            op(&mut rec, &format!("Symbol of {ss} bytes: fused_addassign_mul_scalar with a Symbol of {} bytes (longer source)", ss + delta), move || { let mut x = Symbol::new(a); let y = Symbol::new(b); x.fused_addassign_mul_scalar(&y, &Octet::new(5)); std::hint::black_box(x.as_bytes()[0]); });
            let (a, b) = (rng.bytes(ss + delta), rng.bytes(ss));
            op(&mut rec, &format!("Symbol of {} bytes += Symbol of {ss} bytes (shorter source)", ss + delta), move || { let mut x = Symbol::new(a); let y = Symbol::new(b); x += &y; std::hint::black_box(x.as_bytes()[0]); });
        }
        let (a, b) = (syms[0].clone(), rng.bytes(ss + 1));
        op(&mut rec, &format!("Symbol of {ss} bytes += Symbol of {} bytes (length mismatch)", ss + 1), move || { let mut x = Symbol::new(a); let y = Symbol::new(b); x += &y; });
    }
    // the binary kernels read a *packed* bit vector that lives in an exactly sized heap Vec<u64> (as in the solver):
    // every path, lengths around the vector widths, word patterns with zero runs and an all-zero last / first word
    {
        use raptorq::verif::verif_kernels as vk;
        let mut lens: Vec<usize> = vec![1, 2, 63, 64, 65, 127, 128, 129, 191, 192, 193, 255, 256, 257, 320, 448, 1000];
        if thorough { lens.extend([3usize, 31, 32, 33, 100, 384, 385, 511, 512, 513, 640, 2048, 4099]); }
        for level in [vk::PORTABLE, vk::SSSE3, vk::AVX2, vk::AVX512] {
            for &len in &lens {
                for pat in 0..6u32 {
                    let nwords = (len + 63) / 64;
                    let words: Vec<u64> = (0..nwords).map(|i| match pat { 0 => 0, 1 => u64::MAX, 2 => if i == nwords - 1 { 0 } else { rng.next() }, 3 => if i == 0 { 0 } else { rng.next() }, 4 => if i % 2 == 0 { 0 } else { rng.next() }, _ => rng.next() }).collect();
                    let words = words.into_boxed_slice().into_vec();
                    let d = rng.bytes(len);
                    let c = if pat % 2 == 0 { 1u8 } else { 7 };
                    op(&mut rec, &format!("fused_addassign_mul_scalar_binary path={level} len={len} scalar={c}, packed words (pattern {pat}: 0 zeros, 1 ones, 2 last word zero, 3 first word zero, 4 alternating, 5 random) in an exactly sized Vec<u64>"), move || {
                        let bv = raptorq::verif::BinaryOctetVec::new(words, len);
                        let mut d = d;
                        let exact = vk::supported("fmabin", level);
                        vk::fma_binary_at(level, exact, &mut d, &bv, &Octet::new(c));
                        std::hint::black_box(d[0]);
                    });
                }
            }
        }
    }
    // codec: round trips with losses (solver on both back-ends), and packets whose payload is too short / too long
    for it in 0..(if thorough { 24 } else { 8 }) {
        let k = rng.range(4, 40) as u32;
        let (t, n, al): (u16, u16, u8) = *rng.pick(&[(8, 1, 1), (24, 3, 4), (32, 4, 8), (7, 1, 1), (12, 2, 2), (64, 1, 8)]);
        let data = rng.bytes(k as usize * t as usize);
        let cfg = Oti::new(data.len() as u64, t, 1, n, al);
        let (d2, sparse) = (data.clone(), it % 2 == 0);
        op(&mut rec, &format!("round trip K={k} T={t} N={n} Al={al} with two lost source symbols ({} back-end)", if sparse { "sparse" } else { "dense" }), move || {
            let enc = SourceBlockEncoder::new(0, &cfg, &d2);
            let mut pk: Vec<EncodingPacket> = enc.source_packets();
            pk.remove(0); pk.remove(pk.len() / 2);
            pk.extend(enc.repair_packets(0, 4));
            let mut dec = SourceBlockDecoder::new(0, &cfg, d2.len() as u64);
            dec.set_sparse_threshold(if sparse { 0 } else { 1 << 30 });
            assert_eq!(dec.decode(pk), Some(d2));
        });
        for (delta, missing) in [(-1i32, false), (-1, true), (1, false), (-(t as i32 - 1), false)] {
            let d2 = data.clone();
            op(&mut rec, &format!("block decoder K={k} T={t} N={n} Al={al}: source packet with payload of {} bytes ({})", t as i32 + delta, if missing { "another source symbol missing, repair symbols present" } else { "all other source symbols present" }), move || {
                let enc = SourceBlockEncoder::new(0, &cfg, &d2);
                let mut pk: Vec<EncodingPacket> = enc.source_packets();
                let v = pk.len() / 3;
                let mut payload = pk[v].data().to_vec();
                if delta < 0 { payload.truncate((t as i32 + delta) as usize); } else { payload.push(0xAB); }
                pk[v] = EncodingPacket::new(pk[v].payload_id().clone(), payload);
                if missing { pk.remove(if v == 0 { 1 } else { 0 }); pk.extend(enc.repair_packets(0, 3)); }
                let mut dec = SourceBlockDecoder::new(0, &cfg, d2.len() as u64);
                std::hint::black_box(dec.decode(pk));
            });
        }
    }
    for f in [1u64, 77, 1000, 5000] {
        let data = rng.bytes(f as usize);
        op(&mut rec, &format!("object round trip F={f} with default parameters for 64-byte packets"), move || {
            let enc = Encoder::with_defaults(&data, 64);
            let mut dec = Decoder::new(enc.get_config());
            let mut out = None;
            for p in enc.get_encoded_packets(3).into_iter().skip(1) { out = dec.decode(p); if out.is_some() { break; } }
            assert_eq!(out, Some(data));
        });
    }
    rec.finish(&outdir);
}
