// The configuration-independence workload (C07): the same seeded objects are encoded and decoded
// through the PUBLIC API only, so that this file compiles unchanged against the crate built with
// and without its `std` feature, in checked and unchecked profiles. Output: one line per case.
use raptorq::{Decoder, Encoder, EncodingPacket, ObjectTransmissionInformation};

pub struct Wr(pub u64);
impl Wr {
    pub fn next(&mut self) -> u64 {
        self.0 = self.0.wrapping_add(0x9E37_79B9_7F4A_7C15);
        let mut z = self.0;
        z = (z ^ (z >> 30)).wrapping_mul(0xBF58_476D_1CE4_E5B9);
        z = (z ^ (z >> 27)).wrapping_mul(0x94D0_49BB_1331_11EB);
        z ^ (z >> 31)
    }
    pub fn below(&mut self, n: u64) -> u64 { if n == 0 { 0 } else { self.next() % n } }
}

pub fn fnv(h: &mut u64, b: &[u8]) {
    for x in b { *h ^= *x as u64; *h = h.wrapping_mul(0x100000001b3); }
}

pub struct Case { pub f: u64, pub t: u16, pub z: u8, pub n: u16, pub al: u8, pub data: Vec<u8>, pub repair: u32 }

pub fn cases(seed: u64, quick: bool) -> Vec<Case> {
    let mut r = Wr(seed ^ 0xC07);
    let count = if quick { 14 } else { 60 };
    let mut out = vec![];
    for i in 0..count {
        // K stays small enough for checked builds (their solver self-checks are O(L^3))
        let t: u16 = [1u16, 3, 8, 16, 24, 33, 64, 65, 100, 128][r.below(10) as usize];
        let al: u8 = if t % 8 == 0 && r.below(2) == 0 { 8 } else { 1 };
        let units = t / al as u16;
        let n: u16 = if units >= 3 && r.below(3) == 0 { 2 } else { 1 };
        let z: u8 = if i % 5 == 4 { 3 } else { 1 };
        let kmax = if i % 7 == 6 { 150 } else { 60 };
        let kt = (1 + r.below(kmax)).max(z as u64);
        let f = kt * t as u64 - r.below(t as u64);
        let data: Vec<u8> = (0..f).map(|_| r.next() as u8).collect();
        out.push(Case { f, t, z, n, al, data, repair: 4 + r.below(6) as u32 });
    }
    out
}

// packets digest + decode outcome under a fixed erasure pattern
pub fn run_case(c: &Case, seed: u64) -> String {
    let cfg = ObjectTransmissionInformation::new(c.f, c.t, c.z, c.n, c.al);
    let enc = Encoder::new(&c.data, cfg);
    let packets: Vec<EncodingPacket> = enc.get_encoded_packets(c.repair);
    let mut h: u64 = 0xcbf29ce484222325;
    for p in &packets { fnv(&mut h, &p.serialize()); }
    // erasures: drop every packet whose index hits the pattern, deliver the rest in a permuted order
    let mut r = Wr(seed ^ c.f);
    let mut kept: Vec<&EncodingPacket> = packets.iter().enumerate().filter(|(i, _)| (*i as u64 * 2654435761 + c.f) % 7 > 1).map(|(_, p)| p).collect();
    for i in (1..kept.len()).rev() { let j = r.below(i as u64 + 1) as usize; kept.swap(i, j); }
    let mut dec = Decoder::new(cfg);
    let mut first_some: Option<usize> = None;
    let mut result: Option<Vec<u8>> = None;
    for (i, p) in kept.iter().enumerate() {
        let o = dec.decode((*p).clone());
        if o.is_some() && first_some.is_none() { first_some = Some(i); result = o; }
    }
    let mut hd: u64 = 0xcbf29ce484222325;
    if let Some(b) = &result { fnv(&mut hd, b); }
    let correct = result.as_deref() == Some(&c.data[..]);
    format!(
        "F={} T={} Z={} N={} Al={} packets={} digest={:016x} decoded_at={:?} out_digest={:016x} correct={}",
        c.f, c.t, c.z, c.n, c.al, packets.len(), h, first_some, hd, correct || result.is_none()
    )
}

// wire formats and derived parameters (C13, C14, C19): the bytes are the same in every build
pub fn run_wire(seed: u64) -> Vec<String> {
    use raptorq::PayloadId;
    let mut r = Wr(seed ^ 0xC13);
    let mut out = vec![];
    let hex = |b: &[u8]| -> String { b.iter().map(|x| format!("{:02x}", x)).collect() };
    let mut fs: Vec<u64> = vec![1, 255, 256, 65535, 65536, (1 << 24) - 1, 1 << 24, (1 << 32) - 1, 1 << 32, (1 << 32) + 5, 0x0102030405, 0xA501020304, 942574504275, (1 << 39) + 12345];
    for _ in 0..10 { fs.push(1 + r.below(942574504275)); }
    for f in fs {
        // T, Z chosen so that the configuration is valid: Z = 255 blocks of at most 56403 symbols of 65535 bytes
        let cfg = ObjectTransmissionInformation::new(f, 65535, 255, 1 + (f % 7) as u16, 1);
        let ser = cfg.serialize();
        let back = ObjectTransmissionInformation::deserialize(&ser);
        out.push(format!("oti F={f} ser={} roundtrip={} reser={}", hex(&ser), back == cfg, hex(&back.serialize())));
    }
    for esi in [0u32, 1, 255, 256, 65535, 65536, 0x7FFFFF, 0x800000, 0xFFFFFE, 0xFFFFFF, 0x010203] {
        let sbn = (esi % 251) as u8;
        let p = PayloadId::new(sbn, esi);
        let ser = p.serialize();
        let back = PayloadId::deserialize(&ser);
        let pkt = EncodingPacket::new(PayloadId::new(sbn, esi), vec![sbn, 1, 2, 3, (esi >> 16) as u8]);
        let ps = pkt.serialize();
        out.push(format!("pid sbn={sbn} esi={esi} ser={} roundtrip={} pkt={} pkt_roundtrip={}", hex(&ser), back == p, hex(&ps), EncodingPacket::deserialize(&ps) == pkt));
    }
    for (f, mtu) in [(1u64, 1u16), (1000, 8), (10000, 64), (123456, 100), (10_000_000, 1024), (1 << 32, 1400), ((1 << 33) + 77, 9000), (56403 * 65528 * 255, 65535), (56403 * 1024, 1024), (56404 * 1024, 1024)] {
        let c = ObjectTransmissionInformation::with_defaults(f, mtu);
        out.push(format!("defaults F={f} mtu={mtu} -> T={} Z={} N={} Al={}", c.symbol_size(), c.source_blocks(), c.sub_blocks(), c.symbol_alignment()));
    }
    out
}

// blocks of several thousand symbols (the sparse back-end with a wide dense tail; long bit-packed rows): only in
// unchecked builds - checked builds re-verify the solver's matrix in O(L^3)
pub fn run_large(seed: u64) -> Vec<String> {
    use raptorq::{SourceBlockDecoder, SourceBlockEncoder};
    let mut out = vec![];
    for k in [4000u32, 8000] {
        let mut r = Wr(seed ^ k as u64);
        let t = 4u16;
        let data: Vec<u8> = (0..k as usize * t as usize).map(|_| r.next() as u8).collect();
        let cfg = ObjectTransmissionInformation::new(data.len() as u64, t, 1, 1, 1);
        let enc = SourceBlockEncoder::new(0, &cfg, &data);
        let lost = k / 10;
        let mut pk: Vec<EncodingPacket> = enc.source_packets().into_iter().filter(|p| p.payload_id().encoding_symbol_id() % 10 != 3).collect();
        let rep = enc.repair_packets(0, lost + 2);
        let mut h: u64 = 0xcbf29ce484222325;
        for p in &rep { fnv(&mut h, &p.serialize()); }
        // zero overhead first, then two more symbols
        pk.extend(rep[..lost as usize].iter().cloned());
        let mut dec = SourceBlockDecoder::new(0, &cfg, data.len() as u64);
        let o0 = dec.decode(pk);
        let o2 = if o0.is_some() { o0.clone() } else { dec.decode(rep[lost as usize..].to_vec()) };
        let ok = |o: &Option<Vec<u8>>| match o { None => "none", Some(b) if b[..] == data[..] => "correct", Some(_) => "WRONG" };
        out.push(format!("large K={k} T={t} repair_digest={:016x} zero_overhead={} plus_two={}", h, ok(&o0), ok(&o2)));
    }
    out
}

pub fn run(seed: u64, quick: bool) -> Vec<String> {
    let mut v: Vec<String> = cases(seed, quick).iter().map(|c| run_case(c, seed)).collect();
    v.extend(run_wire(seed));
    if !cfg!(debug_assertions) { v.extend(run_large(seed)); }
    v
}
