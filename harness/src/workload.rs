// The configuration-independence workload (C07): the same seeded objects are encoded and decoded
// through the PUBLIC API only, so that this file compiles unchanged against the crate built with
// and without its `std` feature, in checked and unchecked profiles. Output: one line per case.
use raptorq::{Decoder, Encoder, EncodingPacket, ObjectTransmissionInformation};

pub struct Wr(pub u64);
impl Wr {
    pub fn next(&mut self) -> u64 {
        self.0 = self.0.wrapping_add(0x9E37_79B9_7F4A_7C15);
        let mut z = self.0;
        z = (z ^ (z >> 30)).wrapping_mul(0xBF58_476D_1CE4_E5B9);
        z = (z ^ (z >> 27)).wrapping_mul(0x94D0_49BB_1331_11EB);
        z ^ (z >> 31)
    }
    pub fn below(&mut self, n: u64) -> u64 { if n == 0 { 0 } else { self.next() % n } }
}

pub fn fnv(h: &mut u64, b: &[u8]) {
    for x in b { *h ^= *x as u64; *h = h.wrapping_mul(0x100000001b3); }
}

pub struct Case { pub f: u64, pub t: u16, pub z: u8, pub n: u16, pub al: u8, pub data: Vec<u8>, pub repair: u32 }

pub fn cases(seed: u64, quick: bool) -> Vec<Case> {
    let mut r = Wr(seed ^ 0xC07);
    let count = if quick { 14 } else { 60 };
    let mut out = vec![];
    for i in 0..count {
        // K stays small enough for checked builds (their solver self-checks are O(L^3))
        let t: u16 = [1u16, 3, 8, 16, 24, 33, 64, 65, 100, 128][r.below(10) as usize];
        let al: u8 = if t % 8 == 0 && r.below(2) == 0 { 8 } else { 1 };
        let units = t / al as u16;
        let n: u16 = if units >= 3 && r.below(3) == 0 { 2 } else { 1 };
        let z: u8 = if i % 5 == 4 { 3 } else { 1 };
        let kmax = if i % 7 == 6 { 150 } else { 60 };
        let kt = (1 + r.below(kmax)).max(z as u64);
        let f = kt * t as u64 - r.below(t as u64);
        let data: Vec<u8> = (0..f).map(|_| r.next() as u8).collect();
        out.push(Case { f, t, z, n, al, data, repair: 4 + r.below(6) as u32 });
    }
    out
}

// packets digest + decode outcome under a fixed erasure pattern
pub fn run_case(c: &Case, seed: u64) -> String {
    let cfg = ObjectTransmissionInformation::new(c.f, c.t, c.z, c.n, c.al);
    let enc = Encoder::new(&c.data, cfg);
    let packets: Vec<EncodingPacket> = enc.get_encoded_packets(c.repair);
    let mut h: u64 = 0xcbf29ce484222325;
    for p in &packets { fnv(&mut h, &p.serialize()); }
    // erasures: drop every packet whose index hits the pattern, deliver the rest in a permuted order
    let mut r = Wr(seed ^ c.f);
    let mut kept: Vec<&EncodingPacket> = packets.iter().enumerate().filter(|(i, _)| (*i as u64 * 2654435761 + c.f) % 7 > 1).map(|(_, p)| p).collect();
    for i in (1..kept.len()).rev() { let j = r.below(i as u64 + 1) as usize; kept.swap(i, j); }
    let mut dec = Decoder::new(cfg);
    let mut first_some: Option<usize> = None;
    let mut result: Option<Vec<u8>> = None;
    for (i, p) in kept.iter().enumerate() {
        let o = dec.decode((*p).clone());
        if o.is_some() && first_some.is_none() { first_some = Some(i); result = o; }
    }
    let mut hd: u64 = 0xcbf29ce484222325;
    if let Some(b) = &result { fnv(&mut hd, b); }
    let correct = result.as_deref() == Some(&c.data[..]);
    format!(
        "F={} T={} Z={} N={} Al={} packets={} digest={:016x} decoded_at={:?} out_digest={:016x} correct={}",
        c.f, c.t, c.z, c.n, c.al, packets.len(), h, first_some, hd, correct || result.is_none()
    )
}

pub fn run(seed: u64, quick: bool) -> Vec<String> {
    cases(seed, quick).iter().map(|c| run_case(c, seed)).collect()
}
