// Shared helpers: PRNG (splitmix64), hex, request/answer recorder.
use std::collections::BTreeMap;
use std::fmt::Write as _;
use std::fs::File;
use std::io::{BufWriter, Write};

#[derive(Clone)]
pub struct Rng(pub u64);

impl Rng {
    pub fn new(seed: u64) -> Rng {
        Rng(seed ^ 0x9E37_79B9_7F4A_7C15)
    }
    pub fn next(&mut self) -> u64 {
        self.0 = self.0.wrapping_add(0x9E37_79B9_7F4A_7C15);
        let mut z = self.0;
        z = (z ^ (z >> 30)).wrapping_mul(0xBF58_476D_1CE4_E5B9);
        z = (z ^ (z >> 27)).wrapping_mul(0x94D0_49BB_1331_11EB);
        z ^ (z >> 31)
    }
    // uniform in [0, n)
    pub fn below(&mut self, n: u64) -> u64 {
        if n == 0 { 0 } else { self.next() % n }
    }
    // uniform in [lo, hi]
    pub fn range(&mut self, lo: u64, hi: u64) -> u64 {
        lo + self.below(hi - lo + 1)
    }
    // log-uniform magnitude in [0, 2^bits)
    pub fn logu(&mut self, bits: u32) -> u64 {
        let b = self.below(bits as u64 + 1) as u32;
        if b == 0 { 0 } else { (1u64 << (b - 1)) | (self.next() & ((1u64 << (b - 1)) - 1)) }
    }
    pub fn chance(&mut self, num: u64, den: u64) -> bool {
        self.below(den) < num
    }
    pub fn bytes(&mut self, n: usize) -> Vec<u8> {
        let mut v = Vec::with_capacity(n);
        while v.len() < n {
            let x = self.next().to_le_bytes();
            let take = (n - v.len()).min(8);
            v.extend_from_slice(&x[..take]);
        }
        v
    }
    pub fn pick<'a, T>(&mut self, xs: &'a [T]) -> &'a T {
        &xs[self.below(xs.len() as u64) as usize]
    }
    pub fn shuffle<T>(&mut self, xs: &mut [T]) {
        for i in (1..xs.len()).rev() {
            let j = self.below(i as u64 + 1) as usize;
            xs.swap(i, j);
        }
    }
}

pub fn hex(b: &[u8]) -> String {
    if b.is_empty() {
        return "-".to_string();
    }
    let mut s = String::with_capacity(b.len() * 2);
    for x in b {
        write!(s, "{:02x}", x).unwrap();
    }
    s
}

#[allow(dead_code)]
pub fn unhex(s: &str) -> Vec<u8> {
    if s == "-" {
        return vec![];
    }
    (0..s.len() / 2)
        .map(|i| u8::from_str_radix(&s[2 * i..2 * i + 2], 16).unwrap())
        .collect()
}

pub fn list<T: std::fmt::Display>(xs: &[T]) -> String {
    if xs.is_empty() {
        return "-".to_string();
    }
    xs.iter().map(|x| x.to_string()).collect::<Vec<_>>().join(",")
}

// FNV-1a 64 digest for large outputs (the driver computes the same)
pub fn fnv(b: &[u8]) -> u64 {
    let mut h: u64 = 0xcbf29ce484222325;
    for x in b {
        h ^= *x as u64;
        h = h.wrapping_mul(0x100000001b3);
    }
    h
}

pub struct Recorder {
    req: BufWriter<File>,
    ans: BufWriter<File>,
    pub n: u64,
    pub stats: BTreeMap<String, u64>,
    pub samples: Vec<(String, String)>,
    pub impl_violations: Vec<String>,
    pub distinct: std::collections::HashSet<u64>,
}

impl Recorder {
    pub fn new(outdir: &str) -> Recorder {
        std::fs::create_dir_all(outdir).unwrap();
        Recorder {
            req: BufWriter::new(File::create(format!("{outdir}/req.txt")).unwrap()),
            ans: BufWriter::new(File::create(format!("{outdir}/rust.txt")).unwrap()),
            n: 0,
            stats: BTreeMap::new(),
            samples: vec![],
            impl_violations: vec![],
            distinct: Default::default(),
        }
    }
    pub fn put(&mut self, req: &str, ans: &str) {
        debug_assert!(!req.contains('\n') && !ans.contains('\n'));
        writeln!(self.req, "{req}").unwrap();
        writeln!(self.ans, "{ans}").unwrap();
        self.n += 1;
        self.distinct.insert(fnv(req.as_bytes()));
        if self.samples.len() < 5 || (self.n % 9973 == 0 && self.samples.len() < 12) {
            let cut = |s: &str| if s.len() > 160 { format!("{}…", &s[..160]) } else { s.to_string() };
            self.samples.push((cut(req), cut(ans)));
        }
    }
    pub fn count(&mut self, key: &str) {
        *self.stats.entry(key.to_string()).or_insert(0) += 1;
    }
    pub fn add(&mut self, key: &str, n: u64) {
        *self.stats.entry(key.to_string()).or_insert(0) += n;
    }
    // The implementation itself contradicts the property's own oracle at this input.
    pub fn impl_violation(&mut self, what: String) {
        if self.impl_violations.len() < 50 {
            self.impl_violations.push(what);
        }
        self.count("impl_violations");
    }
    pub fn finish(mut self, outdir: &str) {
        self.req.flush().unwrap();
        self.ans.flush().unwrap();
        let mut s = String::from("{\n");
        write!(s, "  \"requests\": {},\n  \"distinct_requests\": {},\n", self.n, self.distinct.len()).unwrap();
        s.push_str("  \"stats\": {");
        let mut first = true;
        for (k, v) in &self.stats {
            if !first { s.push(','); }
            first = false;
            write!(s, "\n    {}: {}", json_str(k), v).unwrap();
        }
        s.push_str("\n  },\n  \"samples\": [");
        for (i, (r, a)) in self.samples.iter().enumerate() {
            if i > 0 { s.push(','); }
            write!(s, "\n    {{\"request\": {}, \"rust\": {}}}", json_str(r), json_str(a)).unwrap();
        }
        s.push_str("\n  ],\n  \"impl_violations\": [");
        for (i, v) in self.impl_violations.iter().enumerate() {
            if i > 0 { s.push(','); }
            write!(s, "\n    {}", json_str(v)).unwrap();
        }
        s.push_str("\n  ]\n}\n");
        std::fs::write(format!("{outdir}/stats.json"), s).unwrap();
    }
}

pub fn json_str(s: &str) -> String {
    let mut o = String::from("\"");
    for c in s.chars() {
        match c {
            '"' => o.push_str("\\\""),
            '\\' => o.push_str("\\\\"),
            '\n' => o.push_str("\\n"),
            c if (c as u32) < 0x20 => write!(o, "\\u{:04x}", c as u32).unwrap(),
            c => o.push(c),
        }
    }
    o.push('"');
    o
}

// Run f, mapping a panic to Err(kind) with a small canonical set of kinds.
pub fn guarded<T>(f: impl FnOnce() -> T + std::panic::UnwindSafe) -> Result<T, String> {
    match std::panic::catch_unwind(f) {
        Ok(v) => Ok(v),
        Err(e) => {
            let msg = if let Some(s) = e.downcast_ref::<String>() {
                s.clone()
            } else if let Some(s) = e.downcast_ref::<&str>() {
                s.to_string()
            } else {
                "?".to_string()
            };
            Err(classify(&msg))
        }
    }
}

pub fn classify(msg: &str) -> String {
    let k = if msg.contains("overflow") {
        "overflow"
    } else if msg.contains("unreachable") {
        "unreachable"
    } else if msg.contains("index out of bounds") || msg.contains("out of range") || msg.contains("range end") || msg.contains("range start") {
        "oob"
    } else if msg.contains("not implemented") {
        "unimplemented"
    } else if msg.contains("divide by zero") || msg.contains("remainder with a divisor of zero") {
        "divzero"
    } else {
        "assert"
    };
    format!("err:{k}")
}

pub fn quiet_panics() {
    if std::env::var("RQH_SHOW_PANICS").is_ok() { std::panic::set_hook(Box::new(|i| { eprintln!("PANIC {}", i.to_string().replace('\n', " ")); })); return; }
    std::panic::set_hook(Box::new(|_| {}));
}

// true when this harness (and the crate under test) was built with overflow checks
pub fn checked_build() -> bool {
    let r = std::panic::catch_unwind(|| {
        let x: u32 = std::hint::black_box(u32::MAX);
        std::hint::black_box(x + std::hint::black_box(1))
    });
    r.is_err()
}
