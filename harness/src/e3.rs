// Engine E3: codec (constraint matrices, encoder, repair stream, decoders, plans).
use crate::util::*;
use raptorq::verif as rq;
use raptorq::{
    BinaryMatrix, Decoder, DenseBinaryMatrix, Encoder, EncodingPacket, ObjectTransmissionInformation as Oti,
    SourceBlockDecoder, SourceBlockEncoder, SourceBlockEncodingPlan, SparseBinaryMatrix,
};

pub fn table_k() -> Vec<u32> {
    rq::SYSTEMATIC_INDICES_AND_PARAMETERS.iter().map(|r| r.0).collect()
}

// K drawn so that table boundaries K', K'-1, K'+1 are hit often
pub fn pick_k(rng: &mut Rng, max: u32) -> u32 {
    let t = table_k();
    let rows: Vec<u32> = t.iter().copied().filter(|k| *k <= max).collect();
    let k = match rng.below(5) {
        0 => rng.range(1, max as u64) as u32,
        1 => *rng.pick(&rows),
        2 => rng.pick(&rows).saturating_sub(1).max(1),
        3 => (*rng.pick(&rows) + 1).min(max),
        _ => rng.range(1, (max as u64).min(60)) as u32,
    };
    k.clamp(1, max)
}

// ESI for a repair symbol: log-uniform over the 24-bit range plus the edges
pub fn pick_repair_esi(rng: &mut Rng, k: u32) -> u32 {
    let max = (1u32 << 24) - 1;
    match rng.below(6) {
        0 => k + rng.below(4) as u32,
        1 => max - rng.below(4) as u32,
        2 => k + rng.logu(24) as u32 % (max - k + 1),
        3 => (65536 + rng.below(70000)) as u32,
        _ => k + (rng.next() % ((max - k + 1) as u64)) as u32,
    }
    .clamp(k, max)
}

fn canon_matrix<T: BinaryMatrix>(m: &T, hd: &rq::DenseOctetMatrix, s: usize, h: usize) -> String {
    let l = m.width();
    // binary rows: all rows except the H rows logically occupied by HDPC (S..S+H)
    let mut rows = vec![];
    for r in 0..m.height() {
        if r >= s && r < s + h {
            continue;
        }
        let cols: Vec<String> = (0..m.width()).filter(|c| m.get(r, *c) != raptorq::Octet::zero()).map(|c| c.to_string()).collect();
        rows.push(cols.join(","));
    }
    let mut hrows = vec![];
    for r in 0..hd.height() {
        let v: Vec<u8> = (0..l).map(|c| hd.get(r, c).byte()).collect();
        hrows.push(hex(&v));
    }
    format!("{}|{}", rows.join(";"), hrows.join(";"))
}

fn canon_matrix_nh<T: BinaryMatrix>(m: &T) -> String {
    let mut rows = vec![];
    for r in 0..m.height() {
        let cols: Vec<String> = (0..m.width()).filter(|c| m.get(r, *c) != raptorq::Octet::zero()).map(|c| c.to_string()).collect();
        rows.push(cols.join(","));
    }
    format!("{}|", rows.join(";"))
}

fn digest(s: &str) -> String {
    format!("{}:{}", fnv(s.as_bytes()), s.len())
}

// ---------------------------------------------------------------- constraint matrices (C04a)
pub fn cm(rec: &mut Recorder, rng: &mut Rng, thorough: bool) {
    // the largest block sizes (sparse back-end only: the dense matrix would need L^2 bits): the rows whose
    // parameters behave differently from the small ones (S >= 2P from K' = 28845 on, the last row 56403)
    let bigs: Vec<u32> = if thorough { vec![28549, 28845, 29138, 40398, 50511, 56403] } else { vec![*rng.pick(&[28845u32, 29138, 40398]), 56403] };
    for k in bigs {
        let kp = rq::extended_source_block_symbols(k);
        let (s, h) = (rq::num_ldpc_symbols(k) as usize, rq::num_hdpc_symbols(k) as usize);
        let isis: Vec<u32> = (0..kp).collect();
        let isis2 = isis.clone();
        let r = guarded(move || { let (m, hd) = rq::generate_constraint_matrix::<SparseBinaryMatrix>(k, &isis2); canon_matrix(&m, &hd, s, h) });
        match r {
            Ok(a) => rec.put(&format!("cm {k} {}", list(&isis)), &digest(&a)),
            Err(_) => { rec.impl_violation(format!("the constraint matrix of a block of K={k} symbols cannot be built (panic): no encoding symbol can be produced for this block size")); rec.put(&format!("cm {k} {}", list(&isis)), "err"); }
        }
        rec.count("cm_largest_blocks");
    }
    let n = if thorough { 400 } else { 60 };
    for it in 0..n {
        let k = if it < 8 { [1u32, 9, 10, 11, 12, 13, 26, 101][it] } else { pick_k(rng, if thorough { 1200 } else { 260 }) };
        let kp = rq::extended_source_block_symbols(k);
        let s = rq::num_ldpc_symbols(k) as usize;
        let h = rq::num_hdpc_symbols(k) as usize;
        // a received set: some source ISIs, padding ISIs, repair ISIs over the whole range
        let mut isis: Vec<u32> = vec![];
        let full = it % 3 == 0;
        for i in 0..kp {
            if full || rng.chance(4, 5) { isis.push(i); }
        }
        let extra = (kp as usize + h + rng.below(6) as usize).saturating_sub(isis.len());
        for _ in 0..extra {
            isis.push(pick_repair_esi(rng, k) + (kp - k));
        }
        let want_full = it < 12;
        let isis2 = isis.clone();
        let r = guarded(move || {
            let (m, hd) = rq::generate_constraint_matrix::<DenseBinaryMatrix>(k, &isis2);
            let a = canon_matrix(&m, &hd, s, h);
            let (m2, hd2) = rq::generate_constraint_matrix::<SparseBinaryMatrix>(k, &isis2);
            let b = canon_matrix(&m2, &hd2, s, h);
            (a, b)
        });
        let req = format!("{} {k} {}", if want_full { "cmfull" } else { "cm" }, list(&isis));
        match r {
            Ok((a, b)) => {
                if a != b {
                    rec.impl_violation(format!("dense and sparse constraint matrices differ for K={k}"));
                }
                rec.put(&req, &if want_full { a } else { digest(&a) });
                rec.put(&req, &if want_full { b } else { digest(&b) });
            }
            Err(_) => rec.put(&req, "err"),
        }
        rec.count("cm");
        if isis.len() >= (kp as usize + h) {
            let isis3 = isis.clone();
            let r = guarded(move || {
                let m = rq::generate_constraint_matrix_no_hdpc::<DenseBinaryMatrix>(k, &isis3);
                let m2 = rq::generate_constraint_matrix_no_hdpc::<SparseBinaryMatrix>(k, &isis3);
                (canon_matrix_nh(&m), canon_matrix_nh(&m2))
            });
            let req = format!("cmnh {k} {}", list(&isis));
            match r {
                Ok((a, b)) => {
                    rec.put(&req, &digest(&a));
                    rec.put(&req, &digest(&b));
                }
                Err(_) => rec.put(&req, "err"),
            }
            rec.count("cm_no_hdpc");
        }
    }
}

pub fn cfg_for(k: u32, t: u16, n: u16, al: u8) -> Oti {
    Oti::new(k as u64 * t as u64, t, 1, n, al)
}

// (T, N, Al) with Al | T and 1 <= N <= T/Al
pub fn pick_tnal(rng: &mut Rng, tmax: u16) -> (u16, u16, u8) {
    if rng.chance(1, 3) {
        // aligned sub-blocks that do not divide evenly: Al in {2,4,8}, T/Al >= 3, N not dividing T/Al
        let al = *rng.pick(&[2u8, 4, 8, 3]);
        let units = rng.range(3, (tmax as u64 / al as u64).max(3)) as u16;
        let cands: Vec<u16> = (2..units).filter(|n| units % n != 0).collect();
        if !cands.is_empty() {
            return (units * al as u16, *rng.pick(&cands), al);
        }
    }
    let t = match rng.below(4) { 0 => 1, 1 => rng.range(1, 8) as u16, _ => rng.range(1, tmax as u64) as u16 };
    let divs: Vec<u8> = (1..=255u16).filter(|d| t % d == 0).map(|d| d as u8).collect();
    let al = if rng.chance(1, 2) { 1 } else { *rng.pick(&divs) };
    let units = t / al as u16;
    let n = match rng.below(3) { 0 => 1, 1 => units, _ => rng.range(1, units as u64) as u16 };
    (t, n, al)
}

// ---------------------------------------------------------------- block encoder payloads (C04b, C09 model tie)
pub fn enc(rec: &mut Recorder, rng: &mut Rng, thorough: bool) {
    let n = if thorough { 600 } else { 80 };
    for it in 0..n {
        let big = it % 20 == 19;
        let k = pick_k(rng, if big { if thorough { 900 } else { 300 } } else { 120 });
        let (t, nn, al) = if big { (rng.range(1, 3) as u16, 1, 1) } else { pick_tnal(rng, 40) };
        let data = rng.bytes(k as usize * t as usize);
        let mut esis: Vec<u32> = vec![];
        for _ in 0..6 { esis.push(rng.below(k as u64) as u32); }
        for _ in 0..10 { esis.push(pick_repair_esi(rng, k)); }
        esis.push(k);
        esis.push((1 << 24) - 1);
        let (d2, e2) = (data.clone(), esis.clone());
        let r = guarded(move || {
            let cfg = cfg_for(k, t, nn, al);
            let enc = SourceBlockEncoder::new(0, &cfg, &d2);
            let src = enc.source_packets();
            e2.iter()
                .map(|esi| {
                    if *esi < k { hex(src[*esi as usize].data()) } else { hex(enc.repair_packets(esi - k, 1)[0].data()) }
                })
                .collect::<Vec<_>>()
                .join(",")
        });
        let ans = r.unwrap_or("err".into());
        rec.put(&format!("enc {t} {nn} {al} {} {}", hex(&data), list(&esis)), &ans);
        let be = if rq::extended_source_block_symbols(k) >= rq::SPARSE_MATRIX_THRESHOLD { "sparse" } else { "dense" };
        rec.put(&format!("encpi {be} {t} {nn} {al} {} {}", hex(&data), list(&esis)), &ans);
        rec.count(if big { "enc_big" } else { "enc" });
        rec.count(&format!("enc_T_mod8_{}", t % 8));
    }
}

// ---------------------------------------------------------------- repair stream addressing (C18)
// plans for different block sizes must never be mixed up, whatever was encoded before in this process: pairs of
// Table-2 rows that share a column value (the systematic index J, S, H or W) are encoded one after the other through
// the process-wide plan cache and compared with encoders built from freshly generated plans
pub fn repair_plan_history(rec: &mut Recorder, rng: &mut Rng, thorough: bool) {
    let table: Vec<(u32, u32)> = rq::SYSTEMATIC_INDICES_AND_PARAMETERS.iter().map(|r| (r.0 as u32, r.1 as u32)).collect();
    let mut pairs: Vec<(u32, u32)> = vec![];
    for (i, a) in table.iter().enumerate() { for b in table[i + 1..].iter() { if a.1 == b.1 && b.0 <= if thorough { 1200 } else { 700 } { pairs.push((a.0, b.0)); } } }
    pairs.sort_by_key(|p| p.1);
    let cap = if checked_build() { 2 } else if thorough { 12 } else { 4 };
    for (ka, kb) in pairs.into_iter().take(cap) {
        for (first, second) in [(ka, kb), (kb, ka)] {
            // K just below the table value too (same K', another cache key)
            let k2 = if rng.chance(1, 2) { second } else { second - 1 };
            let t = 2u16;
            let (da, db) = (rng.bytes(first as usize * t as usize), rng.bytes(k2 as usize * t as usize));
            let r = guarded(move || {
                let _warm = SourceBlockEncoder::new(0, &cfg_for(first, t, 1, 1), &da);
                let cfg = cfg_for(k2, t, 1, 1);
                let e = SourceBlockEncoder::new(1, &cfg, &db);
                let fresh = SourceBlockEncoder::with_encoding_plan(1, &cfg, &db, &SourceBlockEncodingPlan::generate(k2 as u16));
                (e.repair_packets(0, 6), fresh.repair_packets(0, 6), e.repair_packets(1000, 2), fresh.repair_packets(1000, 2))
            });
            match r {
                Ok((a, b, c, d)) => if a != b || c != d { rec.impl_violation(format!("after a block of {first} symbols was encoded, SourceBlockEncoder::new for {k2} symbols produces repair packets that differ from those of an encoder with a freshly generated plan")); },
                Err(_) => rec.impl_violation(format!("after a block of {first} symbols was encoded, SourceBlockEncoder::new / repair_packets for a block of {k2} symbols panics (a plan for another block size was used)")),
            }
            rec.count("plan_history_pairs");
        }
    }
}

// long windows (thousands of packets in one request) against single requests and overlapping windows
pub fn repair_long_windows(rec: &mut Recorder, rng: &mut Rng, thorough: bool) {
    // (window lengths of 3000 / 12000 are many multiples of L for small blocks and a few multiples for blocks of some
    // hundred symbols: block sizes from several Table-2 rows, whose W, P, P1 differ)
    let mut ks: Vec<u32> = vec![1, 10, 12, 26, 55, 80, 101, 160, 257];
    for _ in 0..(if thorough { 10 } else { 2 }) { ks.push(pick_k(rng, 340)); }
    for k in ks {
        let t = rng.range(1, 5) as u16;
        let data = rng.bytes(k as usize * t as usize);
        let cfg = cfg_for(k, t, 1, 1);
        let n: u32 = if thorough { 12000 } else { 3000 };
        let s = if rng.chance(1, 2) { 0 } else { rng.below(1 << 23) as u32 };
        let samples: Vec<u32> = (0..60).map(|_| rng.below(n as u64) as u32).collect();
        let sm = samples.clone();
        let r = guarded(move || {
            let enc = SourceBlockEncoder::new(3, &cfg, &data);
            let w = enc.repair_packets(s, n);
            let mut bad = vec![];
            if w.len() != n as usize { bad.push(format!("{} packets instead of {n}", w.len())); return bad; }
            for i in sm { if enc.repair_packets(s + i, 1)[0] != w[i as usize] { bad.push(format!("packet {i} of the window differs from the single request for repair index {}", s + i)); } }
            let o = enc.repair_packets(s + n / 3, n / 4);
            for (i, p) in o.iter().enumerate() { if *p != w[(n / 3) as usize + i] { bad.push(format!("overlapping window starting at {} disagrees at repair index {}", s + n / 3, s + n / 3 + i as u32)); break; } }
            for start in [0u32, n / 2, n - 48] {
                let o2 = enc.repair_packets(s + start, 48);
                for (i, p) in o2.iter().enumerate() { if *p != w[start as usize + i] { bad.push(format!("short window of 48 starting at {} disagrees at repair index {}", s + start, s + start + i as u32)); break; } }
            }
            bad
        });
        match r {
            Ok(bad) => for b in bad.iter().take(3) { rec.impl_violation(format!("repair window K={k} T={t} start={s} n={n}: {b}")); },
            Err(_) => rec.impl_violation(format!("repair window K={k} T={t} start={s} n={n} panics")),
        }
        rec.count("repair_long_windows");
    }
}

pub fn repair(rec: &mut Recorder, rng: &mut Rng, thorough: bool) {
    let n = if thorough { 300 } else { 50 };
    for it in 0..n {
        let k = pick_k(rng, 100);
        let t = rng.range(1, 9) as u16;
        let data = rng.bytes(k as usize * t as usize);
        let cfg = cfg_for(k, t, 1, 1);
        let d2 = data.clone();
        let enc = match guarded(move || SourceBlockEncoder::new(7, &cfg, &d2)) {
            Ok(e) => e,
            Err(_) => { rec.impl_violation(format!("SourceBlockEncoder::new panics K={k}")); continue; }
        };
        let top = (1u64 << 24) - k as u64; // number of repair indices with ESI < 2^24
        let windows: Vec<(u32, u32)> = vec![
            (0, rng.range(0, 12) as u32),
            (rng.below(1000) as u32, rng.range(1, 8) as u32),
            ((top - rng.range(1, 6)) as u32, rng.range(1, 8) as u32),       // runs into the 24-bit limit
            (rng.below(top) as u32, rng.range(0, 5) as u32),
            ((top - 3) as u32, 3),
            ((top - 3) as u32, 4),
            (top as u32, 0),
        ];
        // windows that straddle a point where y = (B + X*A) mod 2^32 wraps around
        let mut windows = windows;
        {
            let j = rq::systematic_index(k) as u64;
            let kp = rq::extended_source_block_symbols(k) as u64;
            let mut a = 53591 + j * 997;
            if a % 2 == 0 { a += 1; }
            let b = 10267 * (j + 1);
            for _ in 0..3 {
                let m = rng.range(1, ((1u64 << 24) * a) >> 32);
                let x = ((m << 32) - b + a - 1) / a; // first X with B + X*A >= m * 2^32
                if x > kp + 4 && x + 4 < (1 << 24) + kp - k as u64 + k as u64 {
                    let start = x - kp - rng.range(1, 4);
                    if start + 8 < top { windows.push((start as u32, 8)); }
                }
            }
        }
        for (s, cnt) in windows {
            let e2 = enc.clone();
            let r = guarded(move || e2.repair_packets(s, cnt));
            let fits = s as u64 + cnt as u64 <= top;
            match &r {
                Ok(ps) => {
                    // property oracle: window = single requests; ESIs K+s+i; SBN
                    for (i, p) in ps.iter().enumerate() {
                        let e3 = enc.clone();
                        let si = s + i as u32;
                        let single = guarded(move || e3.repair_packets(si, 1));
                        let ok = matches!(&single, Ok(v) if v.len() == 1 && v[0] == *p)
                            && p.payload_id().encoding_symbol_id() == k + s + i as u32
                            && p.payload_id().source_block_number() == 7
                            && p.data().len() == t as usize;
                        if !ok {
                            rec.impl_violation(format!("repair window K={k} start={s} n={cnt}: packet {i} differs from the single request / wrong id"));
                        }
                    }
                    if ps.len() != cnt as usize {
                        rec.impl_violation(format!("repair window K={k} start={s} n={cnt}: {} packets", ps.len()));
                    }
                    if !fits && cnt > 0 {
                        rec.impl_violation(format!("repair window K={k} start={s} n={cnt} exceeds 24-bit ESIs but was produced"));
                    }
                    rec.count("rep_ok");
                }
                Err(_) => {
                    if fits {
                        rec.impl_violation(format!("repair window K={k} start={s} n={cnt} panics although K+s+n <= 2^24"));
                    }
                    rec.count("rep_refused");
                }
            }
            let ans = r.map(|ps| {
                if ps.is_empty() { "-".to_string() } else {
                    ps.iter().map(|p| format!("{}:{}:{}", p.payload_id().source_block_number(), p.payload_id().encoding_symbol_id(), hex(p.data()))).collect::<Vec<_>>().join(",")
                }
            });
            rec.put(&format!("rep {t} {} {s} {cnt}", hex(&data)), &ans.unwrap_or("err".into()));
        }
        // overlapping windows agree; plans for equal K are interchangeable
        if it % 3 == 0 {
            let s = rng.below(5000) as u32;
            let a = enc.repair_packets(s, 6);
            let b = enc.repair_packets(s + 2, 6);
            if a[2..] != b[..4] {
                rec.impl_violation(format!("overlapping repair windows disagree K={k} start={s}"));
            }
            let plan1 = SourceBlockEncodingPlan::generate(k as u16);
            let plan2 = SourceBlockEncodingPlan::verif_generate(k as u16, if it % 2 == 0 { 0 } else { 1 << 30 }).unwrap();
            let e1 = SourceBlockEncoder::with_encoding_plan(7, &cfg, &data, &plan1);
            let e2 = SourceBlockEncoder::with_encoding_plan(7, &cfg, &data, &plan2);
            if e1.repair_packets(s, 6) != a || e2.repair_packets(s, 6) != a || e1.source_packets() != enc.source_packets() {
                rec.impl_violation(format!("plans for K={k} are not interchangeable"));
            }
            rec.count("rep_plan_pairs");
        }
    }
}

// valid object configurations
pub fn pick_object(rng: &mut Rng, max_bytes: u64) -> (u64, u16, u8, u16, u8) {
    loop {
        let (t, n, al) = pick_tnal(rng, 48);
        let f = match rng.below(5) {
            0 => 1,
            1 => rng.range(1, t as u64),
            2 => t as u64 * rng.range(1, 40),
            _ => rng.range(1, max_bytes),
        };
        let kt = (f + t as u64 - 1) / t as u64;
        let z = match rng.below(4) { 0 => 1, 1 => kt.min(255), _ => rng.range(1, kt.min(12)) } as u8;
        if (kt + z as u64 - 1) / z as u64 <= 56403 && z as u64 <= kt {
            return (f, t, z, n, al);
        }
    }
}

fn pkts_str(ps: &[EncodingPacket]) -> String {
    if ps.is_empty() { return "-".into(); }
    ps.iter().map(|p| format!("{}:{}:{}", p.payload_id().source_block_number(), p.payload_id().encoding_symbol_id(), hex(p.data()))).collect::<Vec<_>>().join(",")
}

// RFC 4.4.1.2 layout oracle, independent of the crate: source packets of an object
pub fn spec_source_packets(data: &[u8], f: u64, t: u16, z: u8, n: u16, al: u8) -> Vec<(u8, u32, Vec<u8>)> {
    let (t, z, n, al) = (t as usize, z as usize, n as usize, al as usize);
    let f = f as usize;
    let kt = (f + t - 1) / t;
    let (kl, ks, zl) = ((kt + z - 1) / z, kt / z, kt - (kt / z) * z);
    let units = t / al;
    let (tl, ts, nl) = ((units + n - 1) / n, units / n, units - (units / n) * n);
    let mut padded = data.to_vec();
    padded.resize(kt * t, 0);
    let mut out = vec![];
    let mut off = 0;
    for b in 0..z {
        let k = if b < zl { kl } else { ks };
        let block = &padded[off..off + k * t];
        off += k * t;
        for m in 0..k {
            let mut sym = vec![];
            let mut sub_off = 0;
            for j in 0..n {
                let sz = if j < nl { tl * al } else { ts * al };
                sym.extend_from_slice(&block[sub_off + m * sz..sub_off + (m + 1) * sz]);
                sub_off += k * sz;
            }
            out.push((b as u8, m as u32, sym));
        }
    }
    out
}

// ---------------------------------------------------------------- object layout (C05) and object packet list (C18)
pub fn object(rec: &mut Recorder, rng: &mut Rng, thorough: bool) {
    let n = if thorough { 500 } else { 70 };
    for it in 0..n {
        let (mut f, mut t, mut z, mut nn, mut al) = pick_object(rng, if it % 10 == 9 { 6000 } else { 1500 });
        // directed: the small blocks hold exactly a Table-2 size (KS = K' of one row) and the large ones one symbol
        // more (the next row): neighbouring blocks of one object then need different plans
        if it % 4 == 3 {
            let ks = *rng.pick(&[10u64, 12, 18, 20, 26, 30, 32, 36, 42, 46, 48, 49, 55, 60, 62, 69, 75, 84, 88, 91, 95, 97, 101]);
            z = rng.range(2, 5) as u8;
            let kt = z as u64 * ks + rng.range(1, z as u64 - 1);
            al = *rng.pick(&[1u8, 2, 4]);
            t = al as u16 * rng.range(1, 3) as u16;
            nn = 1;
            f = kt * t as u64 - rng.below(t as u64);
            rec.count("object_ks_is_table_row");
        }
        // keep single blocks moderate (the model solves them by Gauss-Jordan; checked builds re-verify in O(L^3))
        {
            let cap: u64 = if checked_build() { 500 } else { 2500 };
            let kt = (f + t as u64 - 1) / t as u64;
            if (kt + z as u64 - 1) / z as u64 > cap { f = cap * z as u64 * t as u64 - rng.below(t as u64); rec.count("object_block_size_capped"); }
        }
        // data: random, or with equal consecutive blocks (all zero, constant, periodic in the block length)
        let mut data = rng.bytes(f as usize);
        match rng.below(6) {
            0 => { for b in data.iter_mut() { *b = 0; } rec.count("object_equal_blocks"); }
            1 => { let c = rng.below(256) as u8; for b in data.iter_mut() { *b = c; } rec.count("object_equal_blocks"); }
            2 => { let kt = (f + t as u64 - 1) / t as u64; let kl = ((kt + z as u64 - 1) / z as u64 * t as u64) as usize;
                   if kl > 0 { for i in kl..data.len() { data[i] = data[i - kl]; } } rec.count("object_equal_blocks"); }
            _ => {}
        }
        let r = rng.below(3) as u32;
        let d2 = data.clone();
        let res = guarded(move || {
            let cfg = Oti::new(f, t, z, nn, al);
            let enc = Encoder::new(&d2, cfg);
            let offs = raptorq::calculate_block_offsets(&d2, &cfg);
            (enc.get_encoded_packets(r), offs)
        });
        match res {
            Ok((ps, offs)) => {
                // property oracle: RFC layout of the source packets, ids, sizes
                let spec = spec_source_packets(&data, f, t, z, nn, al);
                let src: Vec<&EncodingPacket> = ps.iter().filter(|p| {
                    let b = p.payload_id().source_block_number();
                    let kb = spec.iter().filter(|s| s.0 == b).count() as u32;
                    p.payload_id().encoding_symbol_id() < kb
                }).collect();
                let ok = src.len() == spec.len()
                    && src.iter().zip(spec.iter()).all(|(p, s)| p.payload_id().source_block_number() == s.0 && p.payload_id().encoding_symbol_id() == s.1 && p.data() == &s.2[..]);
                if !ok {
                    rec.impl_violation(format!("source packet layout deviates from RFC 4.4.1.2 for F={f} T={t} Z={z} N={nn} Al={al}"));
                }
                if ps.iter().any(|p| p.data().len() != t as usize) {
                    rec.impl_violation(format!("payload size != T for F={f} T={t} Z={z} N={nn} Al={al}"));
                }
                let mut ids: Vec<(u8, u32)> = ps.iter().map(|p| (p.payload_id().source_block_number(), p.payload_id().encoding_symbol_id())).collect();
                let total = ids.len();
                ids.sort();
                ids.dedup();
                if ids.len() != total || total != spec.len() + z as usize * r as usize {
                    rec.impl_violation(format!("packet ids not distinct / wrong count for F={f} T={t} Z={z} N={nn} Al={al} r={r} (data starts {})", hex(&data[..data.len().min(24)])));
                }
                let full = it < 10;
                rec.put(
                    &format!("{} {f} {t} {z} {nn} {al} {} {r}", if full { "objencfull" } else { "objenc" }, hex(&data)),
                    &if full { pkts_str(&ps) } else { format!("{} {}", ps.len(), digest(&pkts_str(&ps))) },
                );
                rec.put(&format!("offsets {f} {f} {t} {z} {nn} {al}"), &if offs.is_empty() { "-".into() } else { offs.iter().map(|(a, b)| format!("{a}-{b}")).collect::<Vec<_>>().join(",") });
                // decoder inverts the layout: all source packets, in a shuffled order
                let mut srcp: Vec<EncodingPacket> = src.into_iter().cloned().collect();
                rng.shuffle(&mut srcp);
                let d3 = data.clone();
                let dr = guarded(move || {
                    let mut dec = Decoder::new(Oti::new(f, t, z, nn, al));
                    let mut last = None;
                    let again = srcp[0].clone();
                    for p in srcp { last = dec.decode(p); }
                    // the object stays available: a late packet and get_result() give the same bytes
                    let late = dec.decode(again);
                    let res = dec.get_result();
                    if last.is_some() && (late != last || res != last) { return Some(vec![0xEE; 3]); }
                    last
                });
                if dr == Ok(Some(vec![0xEE; 3])) && d3 != vec![0xEE; 3] {
                    rec.impl_violation(format!("after the object was returned, a late packet / get_result() give different bytes: F={f} T={t} Z={z} N={nn} Al={al}"));
                } else if dr != Ok(Some(d3)) {
                    rec.impl_violation(format!("decoder does not invert the layout from all source packets: F={f} T={t} Z={z} N={nn} Al={al}"));
                }
                rec.count("object");
                if nn > 1 { rec.count("object_subblocks"); }
                if z > 1 { rec.count("object_multiblock"); }
                if f % t as u64 != 0 { rec.count("object_padded"); }
            }
            Err(_) => {
                rec.impl_violation(format!("Encoder::new / get_encoded_packets panics for valid F={f} T={t} Z={z} N={nn} Al={al}"));
                rec.put(&format!("objenc {f} {t} {z} {nn} {al} {} {r}", hex(&data)), "err");
            }
        }
    }
}

// objects of more than 2^16 symbols in all (tiny symbols, many blocks): block boundaries against Partition[Kt, Z]
pub fn object_many_symbols(rec: &mut Recorder, rng: &mut Rng, thorough: bool) {
    let mut cases: Vec<(u64, u16, u8)> = vec![(131071, 2, 255), (210001, 3, 200), (65535, 1, 3), (65536, 1, 3)];
    if thorough { cases.extend([(131069u64, 2u16, 255u8), (131073, 2, 254), (65537, 1, 2), (300000, 1, 7), (1 << 20, 4, 19)]); }
    // objects beyond 4 GiB: byte offsets no longer fit 32 bits although symbol counts do (the buffer is never touched:
    // zero pages from the allocator; only its length is read)
    cases.extend([((1u64 << 32) + 70_000, 65535u16, 2u8), (4_500_000_000, 32768, 130), ((1 << 33) + 12_345, 65528, 3), ((1 << 32) - 1, 65535, 2)]);
    if thorough { for _ in 0..12 { let t = 65535 - rng.below(40000) as u16; let f = (1u64 << 32) + rng.below(6 << 30); let z = rng.range(((f / t as u64 + 1 + 56402) / 56403).max(2), 255) as u8; cases.push((f, t, z)); } }
    for _ in 0..(if thorough { 40 } else { 2 }) {
        let t = rng.range(1, 4) as u16;
        let kt = rng.range(60000, if thorough { 400000 } else { 140000 });
        let z = rng.range(((kt + 56402) / 56403).max(2), 255) as u8;
        cases.push((kt * t as u64 - rng.below(t as u64), t, z));
    }
    for (f, t, z) in cases {
        let data = vec![0u8; f as usize];
        let r = guarded(move || { let cfg = Oti::new(f, t, z, 1, 1); raptorq::calculate_block_offsets(&data, &cfg) });
        let kt = (f + t as u64 - 1) / t as u64;
        let (kl, ks) = ((kt + z as u64 - 1) / z as u64, kt / z as u64);
        let zl = kt - ks * z as u64;
        let mut want = vec![];
        let mut at = 0u64;
        for b in 0..z as u64 { let kb = if b < zl { kl } else { ks }; want.push(((at * t as u64) as usize, ((at + kb) * t as u64) as usize)); at += kb; }
        match &r {
            Ok(offs) => if *offs != want {
                let i = (0..want.len().min(offs.len())).find(|i| offs[*i] != want[*i]).unwrap_or(0);
                rec.impl_violation(format!("block boundaries differ from Partition[Kt={kt}, Z={z}] for F={f} T={t}: block {i} is {:?}, RFC 4.4.1.2 gives {:?}", offs.get(i), want.get(i)));
            },
            Err(_) => rec.impl_violation(format!("calculate_block_offsets panics for the valid configuration F={f} T={t} Z={z} (Kt={kt} symbols)")),
        }
        rec.put(&format!("offsets {f} {f} {t} {z} 1 1"), &match r { Ok(offs) => offs.iter().map(|(a, b)| format!("{a}-{b}")).collect::<Vec<_>>().join(","), Err(_) => "err".into() });
        rec.count("object_more_than_2^16_symbols");
    }
}

// objects of 4 GiB and more cannot be round-tripped here, but a decoder for them can be built and fed: one source
// packet per block is far from enough, the answer must be 'not yet' (block sizes come from Partition[ceil(F/T), Z])
pub fn object_huge_decoders(rec: &mut Recorder, rng: &mut Rng, thorough: bool) {
    let mut cases: Vec<(u64, u16, u8)> = vec![((1 << 32) + 70000, 65535, 2), ((1 << 33) + 3 * 65535, 65535, 3), (1 << 32, 65535, 2), ((1 << 32) - 1, 65535, 2), (942574504275, 65535, 255)];
    for _ in 0..(if thorough { 40 } else { 6 }) {
        let t = 65535 - rng.below(8) as u16;
        let z = rng.range(2, 40) as u8;
        let f = (rng.range(1, 200) << 32) + rng.below(1 << 32);
        if (f + t as u64 - 1) / t as u64 <= 56403 * z as u64 { cases.push((f, t, z)); }
    }
    for (f, t, z) in cases {
        let esi = rng.below(20) as u32;
        let r = guarded(move || {
            let cfg = Oti::new(f, t, z, 1, 1);
            let mut dec = Decoder::new(cfg);
            let mut outs = vec![];
            for b in 0..z { outs.push(dec.decode(EncodingPacket::new(raptorq::PayloadId::new(b, esi), vec![b; t as usize])).map(|v| v.len())); }
            outs.push(dec.get_result().map(|v| v.len()));
            outs
        });
        match r {
            Ok(outs) => if outs.iter().any(|o| o.is_some()) { rec.impl_violation(format!("a decoder for F={f} T={t} Z={z} (blocks of about {} symbols) returns an object of {:?} bytes after ONE source packet per block", (f / t as u64) / z as u64, outs.iter().flatten().next())); },
            Err(_) => rec.impl_violation(format!("a decoder for the valid configuration F={f} T={t} Z={z} panics when fed one source packet per block")),
        }
        rec.count("object_huge_decoders");
    }
}

fn res_str(r: &Option<Vec<u8>>) -> String {
    match r {
        None => "none".into(),
        Some(b) => format!("some:{}", hex(b)),
    }
}

// ---------------------------------------------------------------- block decoder histories (C01 C02 C08)
pub fn decblk(rec: &mut Recorder, rng: &mut Rng, thorough: bool) {
    let n = if thorough { 1500 } else { 160 };
    for it in 0..n {
        let big = it % 25 == 24;
        // repair-only / nearly repair-only receptions of small blocks: the solver's first phase then meets
        // rows with r >= 3 ones in V, which ordinary receptions never produce
        let heavy = !big && it % 4 == 3;
        let k = if heavy { rng.range(5, 45) as u32 } else { pick_k(rng, if big { if thorough { 700 } else { 280 } } else { 70 }) };
        let (t, nn, al) = if big || it % 2 == 0 { (rng.range(1, 4) as u16, 1, 1) } else { pick_tnal(rng, 24) };
        let data = rng.bytes(k as usize * t as usize);
        let cfg = cfg_for(k, t, nn, al);
        let enc = SourceBlockEncoder::new(0, &cfg, &data);
        let src = enc.source_packets();
        // received set: K + h distinct symbols, h in 0..=2 mostly (the boundary), sometimes K-1 or many
        let h = match rng.below(10) { 0..=3 => 0, 4..=5 => 1, 6 => 2, 7 => 14 + rng.below(4), 8 => rng.below(5), _ => 0 } as usize;
        let lost = match rng.below(4) { 0 => 1, 1 => rng.range(1, 3), 2 => rng.range(1, k as u64), _ => rng.range(1, (k as u64 / 4).max(1)) } as usize;
        let lost = if heavy { if rng.chance(2, 3) { k as usize } else { rng.range((k as u64 * 2 / 3).max(1), k as u64) as usize } } else { lost.min(k as usize) };
        if heavy { rec.count("decblk_heavy_loss"); }
        let mut idx: Vec<usize> = (0..k as usize).collect();
        rng.shuffle(&mut idx);
        let mut pk: Vec<EncodingPacket> = idx[lost..].iter().map(|i| src[*i].clone()).collect();
        let mut esis = std::collections::HashSet::new();
        while esis.len() < lost + h {
            esis.insert(pick_repair_esi(rng, k));
        }
        for e in &esis {
            pk.push(enc.repair_packets(e - k, 1).remove(0));
        }
        rng.shuffle(&mut pk);
        if it % 7 == 0 && !pk.is_empty() {
            // duplicates in the stream
            let d = pk[rng.below(pk.len() as u64) as usize].clone();
            let pos = rng.below(pk.len() as u64 + 1) as usize;
            pk.insert(pos, d);
        }
        // history: first a batch with all but the last few packets, then one by one, then re-delivery
        let tail = (3 + rng.below(3) as usize).min(pk.len());
        let mut batches: Vec<Vec<EncodingPacket>> = vec![pk[..pk.len() - tail].to_vec()];
        for p in &pk[pk.len() - tail..] { batches.push(vec![p.clone()]); }
        if it % 5 == 0 { batches.push(vec![pk[0].clone()]); batches.push(vec![]); }
        run_block_history(rec, k, t, nn, al, cfg, &data, batches, it % 2 == 0, h);
        rec.count(if big { "decblk_big" } else { "decblk" });
    }
}


// one history of one block decoder: the implementation's answers, the C01 oracle, and the three model requests
fn run_block_history(rec: &mut Recorder, k: u32, t: u16, nn: u16, al: u8, cfg: Oti, data: &[u8], batches: Vec<Vec<EncodingPacket>>, sparse: bool, h: usize) {
    let data = data.to_vec();
    let b2 = batches.clone();
    // the batch is handed over as a Vec, as a filtering iterator (size_hint lower bound 0) or through from_fn
    let shape = (k as usize + batches.len() + h) % 3;
    let r = guarded(move || {
        let mut dec = SourceBlockDecoder::new(0, &cfg, k as u64 * t as u64);
        dec.set_sparse_threshold(if sparse { 0 } else { 1 << 30 });
        b2.into_iter().map(|b| match shape {
            0 => dec.decode(b),
            1 => dec.decode(b.into_iter().filter(|p| p.data().len() < usize::MAX)),
            _ => { let mut it = b.into_iter(); dec.decode(std::iter::from_fn(move || it.next())) }
        }).collect::<Vec<_>>()
    });
    rec.count(&format!("decblk_iterator_shape_{shape}"));
    let req = format!(
        "decblk {k} {t} {nn} {al} {}",
        batches.iter().map(|b| if b.is_empty() { "-".to_string() } else { b.iter().map(|p| format!("{}:{}", p.payload_id().encoding_symbol_id(), hex(p.data()))).collect::<Vec<_>>().join(",") }).collect::<Vec<_>>().join("/")
    );
    match r {
        Ok(outs) => {
            // property oracle (C01): every answer is None or exactly the data; monotone afterwards
            let mut seen = false;
            for o in &outs {
                match o {
                    Some(b) if *b != data => rec.impl_violation(format!("block decoder returned wrong bytes K={k} T={t} N={nn} Al={al} sparse={sparse}")),
                    Some(_) => seen = true,
                    None if seen => rec.impl_violation(format!("block decoder answered None after Some K={k} T={t} sparse={sparse}")),
                    None => {}
                }
            }
            rec.count(if outs.last().map_or(false, |o| o.is_some()) { "decblk_final_some" } else { "decblk_final_none" });
            rec.count(&format!("decblk_overhead_{}", h.min(3)));
            rec.put(&req, &outs.iter().map(res_str).collect::<Vec<_>>().join(" "));
            rec.put(&req.replacen("decblk ", &format!("decblkpi {} ", if sparse { "sparse" } else { "dense" }), 1), &outs.iter().map(res_str).collect::<Vec<_>>().join(" "));
            if k <= 120 {
                // … and with every solver run of the model certified (left-inverse replay / verified oracle)
                rec.put(&req.replacen("decblk ", &format!("decblkpi {}ck ", if sparse { "sparse" } else { "dense" }), 1), &outs.iter().map(res_str).collect::<Vec<_>>().join(" "));
            }
        }
        Err(_) => {
            rec.impl_violation(format!("block decoder panics on genuine packets K={k} T={t} N={nn} Al={al} sparse={sparse}"));
            rec.put(&req, "err");
        }
    }
}


// groups of repair ESIs (K = K') whose rows in the constraint matrix are identical: degree-1 symbols, grouped by
// their column set; cached per K
pub fn identical_row_groups(k: u32, upto: u32) -> Vec<Vec<u32>> {
    let (w, j, p1) = (rq::num_lt_symbols(k), rq::systematic_index(k), rq::calculate_p1(k));
    let p = k + rq::num_ldpc_symbols(k) + rq::num_hdpc_symbols(k) - w;
    let mut groups: std::collections::HashMap<Vec<usize>, Vec<u32>> = std::collections::HashMap::new();
    for isi in k..upto {
        let t = rq::intermediate_tuple(isi, w, j, p1);
        if t.0 != 1 { continue; }
        let mut v = vec![];
        rq::enc_indices(t, w, p, p1, |c| v.push(c));
        v.sort();
        groups.entry(v).or_default().push(isi);
    }
    let mut g: Vec<Vec<u32>> = groups.into_values().filter(|g| g.len() >= 2).collect();
    g.sort_by(|a, b| b.len().cmp(&a.len()).then(a.cmp(b)));
    g
}

// directed histories of the block decoder (C01 C02 C03 C05 C08): the situations random receptions do not produce
pub fn decblk_directed(rec: &mut Recorder, rng: &mut Rng, thorough: bool) {
    // (a) everything in ONE call, with at least H symbols more than K and sub-blocks: the binary-only path has to
    //     rebuild several missing source symbols and lay them out sub-block by sub-block
    for it in 0..(if thorough { 200 } else { 24 }) {
        let k = pick_k(rng, 60);
        let (t, nn, al) = { let mut x = pick_tnal(rng, 32); for _ in 0..30 { if x.1 > 1 { break; } x = pick_tnal(rng, 32); } x };
        let hh = rq::num_hdpc_symbols(k) as usize;
        let data = rng.bytes(k as usize * t as usize);
        let cfg = cfg_for(k, t, nn, al);
        let enc = SourceBlockEncoder::new(0, &cfg, &data);
        let src = enc.source_packets();
        let lost = rng.range(2, 4.min(k as u64).max(2)) as usize;
        let lost = lost.min(k as usize);
        let mut idx: Vec<usize> = (0..k as usize).collect();
        rng.shuffle(&mut idx);
        let mut pk: Vec<EncodingPacket> = idx[lost..].iter().map(|i| src[*i].clone()).collect();
        let h = hh + 2 + rng.below(6) as usize;
        let mut esis = std::collections::BTreeSet::new();
        while esis.len() < lost + h { esis.insert(pick_repair_esi(rng, k)); }
        for e in &esis { pk.push(enc.repair_packets(e - k, 1).remove(0)); }
        rng.shuffle(&mut pk);
        let mut batches = vec![pk.clone()];
        if it % 2 == 0 { batches.push(vec![pk[0].clone()]); }
        rec.count(if nn > 1 { "directed_one_call_subblocks" } else { "directed_one_call" });
        run_block_history(rec, k, t, nn, al, cfg, &data, batches, it % 2 == 0, h);
    }
    // (b) a first attempt that must fail (the K received symbols contain two with identical rows), after which the
    //     missing SOURCE symbols arrive one by one: the decoder has to answer as soon as the set determines the block
    // (c) a flood of identical-row repair symbols first (rank deficient however many arrive), useful symbols afterwards
    for &k in &[10u32, 12] {
        let groups = identical_row_groups(k, if thorough { 1 << 24 } else { 1 << 23 });
        if groups.is_empty() { continue; }
        for it in 0..(if thorough { 60 } else { 8 }) {
            let t = rng.range(1, 4) as u16;
            let data = rng.bytes(k as usize * t as usize);
            let cfg = cfg_for(k, t, 1, 1);
            let enc = SourceBlockEncoder::new(0, &cfg, &data);
            let src = enc.source_packets();
            let g = &groups[rng.below(groups.len().min(40) as u64) as usize];
            let lost = rng.range(2, 4) as usize;
            let mut idx: Vec<usize> = (0..k as usize).collect();
            rng.shuffle(&mut idx);
            let mut first: Vec<EncodingPacket> = idx[lost..].iter().map(|i| src[*i].clone()).collect();
            let mut esis = std::collections::BTreeSet::new();
            esis.insert(g[0]); esis.insert(g[1]);
            while esis.len() < lost { esis.insert(pick_repair_esi(rng, k)); }
            for e in &esis { first.push(enc.repair_packets(e - k, 1).remove(0)); }
            rng.shuffle(&mut first);
            let mut batches = vec![first];
            // sometimes further useless (identical-row) symbols first: two, three failed attempts in a row
            if g.len() >= 4 { for e in g[2..].iter().take(rng.below(3) as usize) { batches.push(vec![enc.repair_packets(e - k, 1).remove(0)]); rec.count("directed_repeated_failed_attempts"); } }
            for i in &idx[..lost] { batches.push(vec![src[*i].clone()]); }
            rec.count("directed_failed_attempt_then_source_symbols");
            run_block_history(rec, k, t, 1, 1, cfg, &data, batches, it % 2 == 0, 0);
        }
        let big = &groups[0];
        let l = (k + rq::num_ldpc_symbols(k) + rq::num_hdpc_symbols(k)) as usize;
        for it in 0..(if thorough { 12 } else { 2 }) {
            if big.len() < l + 2 { rec.count("directed_flood_group_too_small"); break; }
            let t = 1u16;
            let data = rng.bytes(k as usize * t as usize);
            let cfg = cfg_for(k, t, 1, 1);
            let enc = SourceBlockEncoder::new(0, &cfg, &data);
            let mut batches: Vec<Vec<EncodingPacket>> = vec![];
            // the flood, first K of them in one call, the rest one by one
            let flood: Vec<EncodingPacket> = big.iter().take(l + 2).map(|e| enc.repair_packets(e - k, 1).remove(0)).collect();
            batches.push(flood[..k as usize].to_vec());
            for p in &flood[k as usize..] { batches.push(vec![p.clone()]); }
            let mut esis = std::collections::BTreeSet::new();
            while esis.len() < k as usize + 4 { esis.insert(pick_repair_esi(rng, k)); }
            for e in &esis { batches.push(vec![enc.repair_packets(e - k, 1).remove(0)]); }
            rec.count("directed_identical_row_flood");
            run_block_history(rec, k, t, 1, 1, cfg, &data, batches, it % 2 == 0, 3);
        }
    }
}

// (d) a long rank-deficient prefix: take a non-zero witness block w (1-byte symbols); every repair symbol id at which w
//     encodes to 0 gives a row orthogonal to w's intermediate symbols, and so does every constraint row - any number of
//     such symbols leaves the block undetermined (far more than L, K'+H+64, 2L ... of them), until other symbols arrive
pub fn decblk_deficient_prefix(rec: &mut Recorder, rng: &mut Rng, thorough: bool) {
    for &k in (if thorough { &[10u32, 11, 26, 28, 40][..] } else { &[10u32, 28][..] }) {
        let kp = rq::extended_source_block_symbols(k);
        let (hh, ss) = (rq::num_hdpc_symbols(k), rq::num_ldpc_symbols(k));
        let l = kp + hh + ss;
        let wdata = loop { let d = rng.bytes(k as usize); if d.iter().any(|b| *b != 0) { break d; } };
        let wenc = SourceBlockEncoder::new(0, &cfg_for(k, 1, 1, 1), &wdata);
        let scan = wenc.repair_packets(0, 120_000);
        let zero_esis: Vec<u32> = scan.iter().filter(|p| p.data()[0] == 0).map(|p| p.payload_id().encoding_symbol_id()).collect();
        for it in 0..(if thorough { 6 } else { 2 }) {
            let want = match it % 3 { 0 => (kp + hh + 64 + 3 + rng.below(30) as u32) as usize, 1 => (2 * l + rng.below(20) as u32) as usize, _ => (l + 1 + rng.below(l as u64) as u32) as usize };
            if zero_esis.len() < want { rec.count("deficient_prefix_too_few_ids"); continue; }
            let t = rng.range(1, 3) as u16;
            let data = rng.bytes(k as usize * t as usize);
            let cfg = cfg_for(k, t, 1, 1);
            let enc = SourceBlockEncoder::new(0, &cfg, &data);
            let mut ids = zero_esis.clone();
            rng.shuffle(&mut ids);
            let flood: Vec<EncodingPacket> = ids[..want].iter().map(|e| enc.repair_packets(e - k, 1).remove(0)).collect();
            let mut batches: Vec<Vec<EncodingPacket>> = vec![];
            match it % 2 { 0 => { batches.push(flood[..k as usize].to_vec()); for c in flood[k as usize..].chunks(7) { batches.push(c.to_vec()); } }, _ => batches.push(flood.clone()) }
            let mut esis = std::collections::BTreeSet::new();
            while esis.len() < k as usize + 3 { let e = pick_repair_esi(rng, k); if !ids[..want].contains(&e) { esis.insert(e); } }
            for e in &esis { batches.push(vec![enc.repair_packets(e - k, 1).remove(0)]); }
            rec.count("directed_deficient_prefix");
            rec.add("deficient_prefix_rows", want as u64);
            run_block_history(rec, k, t, 1, 1, cfg, &data, batches, it % 2 == 0, 3);
        }
    }
}


// far more symbols than a block needs (more than 2^16 rows reach the solver): the answer is still the data,
// in one call and when delivery simply continues
pub fn decblk_flooded(rec: &mut Recorder, rng: &mut Rng, thorough: bool) {
    for it in 0..(if thorough { 3 } else { 1 }) {
        let k = rng.range(8, 14) as u32;
        let t = 2u16;
        let data = rng.bytes(k as usize * t as usize);
        let cfg = cfg_for(k, t, 1, 1);
        let enc = SourceBlockEncoder::new(0, &cfg, &data);
        let mut pk: Vec<EncodingPacket> = enc.source_packets();
        pk.remove(rng.below(k as u64) as usize);
        let n = 66000 + 1500 * it as u32 + rng.below(3000) as u32;
        pk.extend(enc.repair_packets(rng.below(1 << 20) as u32, n));
        let (p1, d1) = (pk.clone(), data.clone());
        let r = guarded(move || {
            let mut a = SourceBlockDecoder::new(0, &cfg, d1.len() as u64);
            let one = a.decode(p1.clone());
            let mut b = SourceBlockDecoder::new(0, &cfg, d1.len() as u64);
            let first = b.decode(p1[..p1.len() / 2].to_vec());
            let second = b.decode(p1[p1.len() / 2..].to_vec());
            (one == Some(d1.clone()), first == Some(d1.clone()), second == Some(d1))
        });
        match r {
            Ok((true, true, true)) => {}
            Ok(x) => rec.impl_violation(format!("block decoder holding {} symbols of a block of K={k}: answers (one call, first half, after the second half) correct = {:?}", pk.len(), x)),
            Err(_) => rec.impl_violation(format!("block decoder panics when handed {} distinct symbols of a block of K={k} symbols (one source symbol missing)", pk.len())),
        }
        rec.count("decblk_more_than_2^16_symbols");
    }
}

// malformed packets (C12): a payload shorter than the symbol size must never be read past its end - whatever
// the decoder does with such a packet, it cannot produce K*T bytes from fewer payload bytes
pub fn decblk_malformed(rec: &mut Recorder, rng: &mut Rng, thorough: bool) {
    for it in 0..(if thorough { 300 } else { 48 }) {
        let k = rng.range(2, 30) as u32;
        let (t, nn, al) = if it % 2 == 0 { let mut x = pick_tnal(rng, 32); for _ in 0..30 { if x.1 > 1 { break; } x = pick_tnal(rng, 32); } x } else { (rng.range(2, 40) as u16, 1, 1) };
        if t < 2 { continue; }
        let data = rng.bytes(k as usize * t as usize);
        let cfg = cfg_for(k, t, nn, al);
        let enc = SourceBlockEncoder::new(0, &cfg, &data);
        let mut pk = enc.source_packets();
        let victim = rng.below(k as u64) as usize;
        let cut = rng.range(1, t as u64 - 1) as usize;
        let with_repair = it % 3 == 2;
        if with_repair { let drop = (victim + 1) % k as usize; if drop != victim { pk.remove(drop); } pk.extend(enc.repair_packets(0, 3)); }
        let vi = pk.iter().position(|p| p.payload_id().encoding_symbol_id() == victim as u32).unwrap();
        let short = pk[vi].data()[..t as usize - cut].to_vec();
        pk[vi] = EncodingPacket::new(pk[vi].payload_id().clone(), short);
        rng.shuffle(&mut pk);
        let one_call = it % 4 < 2;
        let pk2 = pk.clone();
        let r = guarded(move || {
            let mut dec = SourceBlockDecoder::new(0, &cfg, k as u64 * t as u64);
            if one_call { dec.decode(pk2) } else { let mut out = None; for p in pk2 { let o = dec.decode(vec![p]); if o.is_some() { out = o; } } out }
        });
        if let Ok(Some(b)) = &r {
            rec.impl_violation(format!("block decoder returned {} bytes although source symbol {victim} was delivered {cut} byte(s) short (K={k} T={t} N={nn} Al={al}, {}): the missing bytes were read from outside the packet's payload", b.len(), if with_repair { "with repair symbols" } else { "all source symbols" }));
        }
        rec.count(match &r { Ok(Some(_)) => "malformed_short_payload_answered", Ok(None) => "malformed_short_payload_none", Err(_) => "malformed_short_payload_refused" });
    }
}

// ---------------------------------------------------------------- object decoder histories (C01 C08)
pub fn decobj(rec: &mut Recorder, rng: &mut Rng, thorough: bool) {
    let n = if thorough { 600 } else { 80 };
    for it in 0..n {
        let (mut f, mut t, mut z, mut nn, mut al) = pick_object(rng, 900);
        // directed: two block sizes on either side of a Table-2 size (KS = K' of one row, KL = KS + 1 pads to the next)
        if it % 4 == 3 {
            let ks = *rng.pick(&[10u64, 12, 18, 20, 26, 30, 32, 36, 42, 46, 48, 49, 55, 60, 62, 69, 75, 84, 88, 91, 95, 97, 101]);
            z = rng.range(2, 4) as u8;
            let kt = z as u64 * ks + rng.range(1, z as u64 - 1);
            al = 1; nn = 1;
            t = rng.range(1, 6) as u16;
            f = kt * t as u64 - rng.below(t as u64);
            rec.count("decobj_ks_is_table_row");
        }
        let data = rng.bytes(f as usize);
        let cfg = Oti::new(f, t, z, nn, al);
        let enc = Encoder::new(&data, cfg);
        let extra = 2 + rng.below(3) as u32;
        let mut pk = enc.get_encoded_packets(0);
        // repair symbols from anywhere in the ESI range
        for be in enc.get_block_encoders() {
            let kb = be.source_packets().len() as u32;
            for _ in 0..extra + (kb / 3) {
                let e = pick_repair_esi(rng, kb);
                pk.push(be.repair_packets(e - kb, 1).remove(0));
            }
        }
        rng.shuffle(&mut pk);
        // drop some (never leaves the set undecodable for sure, that is fine: None is a valid answer)
        let drop = rng.below((pk.len() / 4 + 1) as u64) as usize;
        pk.truncate(pk.len() - drop);
        // duplicates and re-delivery after completion
        for _ in 0..rng.below(4) {
            let d = pk[rng.below(pk.len() as u64) as usize].clone();
            let pos = rng.below(pk.len() as u64 + 1) as usize;
            pk.insert(pos, d);
        }
        let incremental = it % 3 == 0;
        let mut ops: Vec<String> = vec![];
        let pk2 = pk.clone();
        let r = guarded(move || {
            let mut dec = Decoder::new(cfg);
            let mut outs: Vec<String> = vec![];
            let mut clone_at: Option<Decoder> = None;
            let mut clone_outs: Vec<Option<Vec<u8>>> = vec![];
            let mut main_outs: Vec<Option<Vec<u8>>> = vec![];
            let half = pk2.len() / 2;
            for (i, p) in pk2.iter().enumerate() {
                if i == half { clone_at = Some(dec.clone()); }
                if incremental && i % 2 == 0 {
                    dec.add_new_packet(p.clone());
                    outs.push("ok".into());
                    let g = dec.get_result();
                    outs.push(res_str(&g));
                    main_outs.push(g);
                } else {
                    let o = dec.decode(p.clone());
                    outs.push(res_str(&o));
                    main_outs.push(o);
                }
            }
            // a clone taken half way continues exactly like the original
            if let Some(mut c) = clone_at {
                for p in pk2[half..].iter() { clone_outs.push(c.decode(p.clone())); }
            }
            (outs, main_outs, clone_outs, half)
        });
        for (i, p) in pk.iter().enumerate() {
            let body = format!("{}:{}:{}", p.payload_id().source_block_number(), p.payload_id().encoding_symbol_id(), hex(p.data()));
            if incremental && i % 2 == 0 { ops.push(format!("a:{body}")); ops.push("g".into()); } else { ops.push(format!("d:{body}")); }
        }
        let req = format!("decobj {f} {t} {z} {nn} {al} {}", ops.join(","));
        match r {
            Ok((outs, main_outs, clone_outs, half)) => {
                let mut seen = false;
                for o in &main_outs {
                    match o {
                        Some(b) if *b != data => rec.impl_violation(format!("object decoder returned wrong bytes F={f} T={t} Z={z} N={nn} Al={al}")),
                        Some(_) => seen = true,
                        None if seen => rec.impl_violation(format!("object decoder answered None after Some F={f} T={t} Z={z}")),
                        None => {}
                    }
                }
                if clone_outs[..] != main_outs[half..] {
                    rec.impl_violation(format!("cloned decoder diverges F={f} T={t} Z={z} N={nn} Al={al}"));
                }
                rec.count(if seen { "decobj_completed" } else { "decobj_incomplete" });
                rec.put(&req, &outs.join(" "));
            }
            Err(_) => {
                rec.impl_violation(format!("object decoder panics on genuine packets F={f} T={t} Z={z} N={nn} Al={al}"));
                rec.put(&req, "err");
            }
        }
        // order / duplication / batching independence, directly on the implementation
        let mut perm = pk.clone();
        rng.shuffle(&mut perm);
        let (a, b) = (pk.clone(), perm);
        let r2 = guarded(move || {
            let fin = |ps: &[EncodingPacket]| { let mut d = Decoder::new(cfg); let mut last = None; for p in ps { last = d.decode(p.clone()); } last };
            (fin(&a), fin(&b))
        });
        match r2 {
            Ok((x, y)) => if x != y { rec.impl_violation(format!("final answer depends on packet order F={f} T={t} Z={z} N={nn} Al={al}")) },
            Err(_) => rec.impl_violation(format!("object decoder panics (permuted order) F={f} T={t} Z={z}")),
        }
        rec.count("decobj");
    }
}

// ---------------------------------------------------------------- intermediate symbols satisfy all constraints (C06)
pub fn inter(rec: &mut Recorder, rng: &mut Rng, thorough: bool) {
    let t2 = table_k();
    let rows: Vec<usize> = if thorough { (0..477).collect() } else {
        // quick: every row up to K'=~1300 in steps, the historically fragile ones, and a random handful of large ones
        let mut v: Vec<usize> = (0..477).filter(|i| t2[*i] <= 2000 || (*i % 5 == 0 && t2[*i] <= 6000)).collect();
        for (i, kp) in t2.iter().enumerate() { if [1698u32, 8837, 1649, 1673, 6589, 56403].iter().any(|x| kp >= x && (i == 0 || t2[i - 1] < *x)) { v.push(i); } }
        for _ in 0..3 { v.push(rng.below(477) as usize); }
        v.sort(); v.dedup(); v
    };
    for ri in rows {
        let kp = t2[ri];
        let k = if rng.chance(1, 2) || ri == 0 { kp } else { (t2[ri - 1] + 1 + rng.below((kp - t2[ri - 1]) as u64) as u32).min(kp) };
        let t: u16 = if kp > 5000 { 1 } else { *rng.pick(&[1u16, 2, 3, 4]) };
        let data = rng.bytes(k as usize * t as usize);
        let modes: Vec<u8> = if thorough { vec![0, 1, 2, 3] } else { vec![(ri % 4) as u8] };
        for mode in modes {
            if mode == 2 && kp > 6000 { continue; } // dense direct solve of huge blocks is too slow
            let d2 = data.clone();
            let r = guarded(move || {
                let cfg = cfg_for(k, t, 1, 1);
                let enc = match mode {
                    0 => SourceBlockEncoder::new(0, &cfg, &d2),                                         // cached plan
                    1 => SourceBlockEncoder::with_encoding_plan(0, &cfg, &d2, &SourceBlockEncodingPlan::generate(k as u16)),
                    2 => SourceBlockEncoder::verif_new_unplanned(0, &cfg, &d2, 1 << 30).expect("dense direct solve failed"),
                    _ => SourceBlockEncoder::verif_new_unplanned(0, &cfg, &d2, 0).expect("sparse direct solve failed"),
                };
                enc.verif_intermediate_symbols().concat()
            });
            match r {
                Ok(c) => {
                    rec.put(&format!("chk {k} {t} {} {}", hex(&c), hex(&data)), "ok");
                    rec.count(&format!("inter_mode_{mode}"));
                }
                Err(_) => {
                    rec.impl_violation(format!("building an encoder fails for K={k} (K'={kp}) mode={mode}"));
                    rec.put(&format!("sys {k}"), "encoder-build-failed");
                }
            }
        }
        rec.count("inter_rows");
    }
}

pub fn ops_str(ops: &[rq::SymbolOps]) -> String {
    ops.iter()
        .map(|op| match op {
            rq::SymbolOps::AddAssign { dest, src } => format!("a:{dest}:{src}"),
            rq::SymbolOps::MulAssign { dest, scalar } => format!("m:{dest}:{}", scalar.byte()),
            rq::SymbolOps::FMA { dest, src, scalar } => format!("f:{dest}:{src}:{}", scalar.byte()),
            rq::SymbolOps::Reorder { order } => format!("r:{}", order.iter().map(|x| x.to_string()).collect::<Vec<_>>().join(".")),
        })
        .collect::<Vec<_>>()
        .join(",")
}

// ---------------------------------------------------------------- plans (C06 plan replay, C09 model tie, C17 transparency oracle)
pub fn plan(rec: &mut Recorder, rng: &mut Rng, thorough: bool) {
    let n = if thorough { 200 } else { 40 };
    for it in 0..n {
        let k = pick_k(rng, if it % 10 == 9 { if thorough { 600 } else { 260 } } else { 90 });
        let t = rng.range(1, 5) as u16;
        let data = rng.bytes(k as usize * t as usize);
        let thr = match it % 3 { 0 => None, 1 => Some(0u32), _ => Some(1 << 30) };
        let d2 = data.clone();
        let r = guarded(move || {
            let plan = match thr { None => SourceBlockEncodingPlan::generate(k as u16), Some(x) => SourceBlockEncodingPlan::verif_generate(k as u16, x).expect("plan generation failed") };
            let cfg = cfg_for(k, t, 1, 1);
            let enc = SourceBlockEncoder::with_encoding_plan(0, &cfg, &d2, &plan);
            let direct = SourceBlockEncoder::verif_new_unplanned(0, &cfg, &d2, thr.unwrap_or(rq::SPARSE_MATRIX_THRESHOLD)).expect("direct solve failed");
            (ops_str(plan.verif_operations()), enc.verif_intermediate_symbols().concat(), direct.verif_intermediate_symbols().concat(), plan.verif_source_symbol_count())
        });
        match r {
            Ok((ops, c, cdirect, cnt)) => {
                if c != cdirect { rec.impl_violation(format!("plan replay and direct solve give different intermediate symbols K={k} threshold={:?}", thr)); }
                if cnt as u32 != k { rec.impl_violation(format!("plan for K={k} records symbol count {cnt}")); }
                rec.put(&format!("planrun {k} {t} {} {ops}", hex(&data)), &format!("valid {}", hex(&c)));
                rec.count(match thr { None => "plan_default", Some(0) => "plan_sparse", _ => "plan_dense" });
            }
            Err(_) => { rec.impl_violation(format!("plan generation / replay panics K={k} threshold={:?}", thr)); rec.put(&format!("sys {k}"), "plan-failed"); }
        }
        // the per-K certificate of theorem C06.plan_certificate: one replay of the plan on the
        // identity block (K symbols of K bytes, symbol i = e_i) must satisfy the whole system
        if k <= (if thorough { 400 } else { 130 }) && it % 2 == 0 {
            let ident: Vec<u8> = (0..k as usize).flat_map(|i| (0..k as usize).map(move |j| (i == j) as u8)).collect();
            let id2 = ident.clone();
            let r = guarded(move || {
                let plan = match thr { None => SourceBlockEncodingPlan::generate(k as u16), Some(x) => SourceBlockEncodingPlan::verif_generate(k as u16, x).unwrap() };
                let cfg = cfg_for(k, k as u16, 1, 1);
                let enc = SourceBlockEncoder::with_encoding_plan(0, &cfg, &id2, &plan);
                (ops_str(plan.verif_operations()), enc.verif_intermediate_symbols().concat())
            });
            if let Ok((ops, c)) = r {
                rec.put(&format!("planrun {k} {k} {} {ops}", hex(&ident)), &format!("valid {}", hex(&c)));
                rec.count("plan_certificates");
            }
        }
    }
}

fn xor(a: &[u8], b: &[u8]) -> Vec<u8> { a.iter().zip(b).map(|(x, y)| x ^ y).collect() }

// ---------------------------------------------------------------- linearity / byte-column independence (C09), on the implementation
pub fn linear(rec: &mut Recorder, rng: &mut Rng, thorough: bool) {
    use crate::e1::pmul;
    let tmax = if thorough { 4 * 64 + 70 } else { 4 * 64 + 6 };
    for t in 1..=tmax as u16 {
        if !thorough && t > 140 && t % 3 != 0 && t % 64 > 2 && t % 64 < 62 { continue; }
        let k = pick_k(rng, 40);
        let (mut a, b) = (rng.bytes(k as usize * t as usize), rng.bytes(k as usize * t as usize));
        // structured data: whole byte columns zero (shortcuts keyed on "this symbol is zero" must look at every byte)
        let tt = t as usize;
        let mode = rng.below(8);
        let lane = rng.below(8) as usize;
        let keep: Vec<bool> = match mode {
            0 | 1 => vec![true; tt],
            // only one byte position of every 8-byte group (word-structured data: a kernel that looks at whole
            // 64-bit lanes must not mistake it for zero)
            6 | 7 => (0..tt).map(|j| j % 8 == lane).collect(),
            2 => { let tail = (tt % 8).max(1).min(tt); (0..tt).map(|j| j >= tt - tail).collect() }            // only the last T mod 8 columns
            3 => { let j0 = rng.below(t as u64) as usize; (0..tt).map(|j| j == j0).collect() }                  // one column
            4 => (0..tt).map(|_| rng.chance(1, 4)).collect(),                                                   // a quarter of the columns
            _ => { let head = rng.below(t as u64) as usize; (0..tt).map(|j| j < head.max(1).min(tt)).collect() } // only a prefix
        };
        for m in 0..k as usize { for j in 0..tt { if !keep[j] { a[m * tt + j] = 0; } else if mode == 7 { a[m * tt + j] = *rng.pick(&[0u8, 0x40, 0x80, 0xC0]); } } }
        rec.count(&format!("linear_data_mode_{mode}"));
        let c = rng.range(2, 255) as u8;
        let esis: Vec<u32> = vec![0, k - 1, k, k + 1, pick_repair_esi(rng, k), pick_repair_esi(rng, k), (1 << 24) - 1];
        let mut cols: Vec<usize> = vec![0, (t as usize) - 1, rng.below(t as u64) as usize, (t as usize).saturating_sub(4).min(t as usize - 1)];
        if let Some(j) = keep.iter().position(|x| *x) { cols.push(j); }
        if let Some(j) = keep.iter().rposition(|x| *x) { cols.push(j); }
        let (a2, b2, e2, cols2) = (a.clone(), b.clone(), esis.clone(), cols.clone());
        let r = guarded(move || {
            let cfg = cfg_for(k, t, 1, 1);
            let pk = |d: &[u8]| -> Vec<Vec<u8>> {
                let enc = SourceBlockEncoder::new(0, &cfg, d);
                let src = enc.source_packets();
                e2.iter().map(|e| if *e < k { src[*e as usize].data().to_vec() } else { enc.repair_packets(e - k, 1)[0].data().to_vec() }).collect()
            };
            let pa = pk(&a2);
            let pb = pk(&b2);
            let pab = pk(&xor(&a2, &b2));
            let pca = pk(&a2.iter().map(|x| pmul(c, *x)).collect::<Vec<u8>>());
            let mut bad = vec![];
            for i in 0..pa.len() {
                if pab[i] != xor(&pa[i], &pb[i]) { bad.push(format!("additivity ESI {}", e2[i])); }
                if pca[i] != pa[i].iter().map(|x| pmul(c, *x)).collect::<Vec<u8>>() { bad.push(format!("homogeneity scalar {c} ESI {}", e2[i])); }
            }
            // column j alone, symbol size 1
            let cfg1 = cfg_for(k, 1, 1, 1);
            for j in cols2 {
                let col: Vec<u8> = (0..k as usize).map(|m| a2[m * t as usize + j]).collect();
                let enc = SourceBlockEncoder::new(0, &cfg1, &col);
                let src = enc.source_packets();
                for (i, e) in e2.iter().enumerate() {
                    let one = if *e < k { src[*e as usize].data()[0] } else { enc.repair_packets(e - k, 1)[0].data()[0] };
                    if one != pa[i][j] { bad.push(format!("column {j} ESI {e}")); }
                }
            }
            // decoding at this symbol size from repair symbols only
            let enc = SourceBlockEncoder::new(0, &cfg, &a2);
            let mut dec = SourceBlockDecoder::new(0, &cfg, k as u64 * t as u64);
            let out = dec.decode(enc.repair_packets(5, k + 12));
            if out.as_deref() != Some(&a2[..]) { bad.push("decode from repair symbols".to_string()); }
            bad
        });
        match r {
            Ok(bad) => for b in bad { rec.impl_violation(format!("linearity violated at K={k} T={t}: {b}")); },
            Err(_) => rec.impl_violation(format!("encoder/decoder panics at K={k} T={t}")),
        }
        rec.count(&format!("linear_T_mod64_{}", match t % 64 { 0 => "0", 1..=7 => "1-7", 8..=15 => "8-15", 16..=31 => "16-31", _ => "32-63" }));
        // model tie at this symbol size: payloads vs the model encoder
        if t <= 40 || t % 16 <= 1 {
            let d2 = a.clone();
            let e3 = esis.clone();
            let r = guarded(move || {
                let cfg = cfg_for(k, t, 1, 1);
                let enc = SourceBlockEncoder::new(0, &cfg, &d2);
                let src = enc.source_packets();
                e3.iter().map(|e| if *e < k { hex(src[*e as usize].data()) } else { hex(enc.repair_packets(e - k, 1)[0].data()) }).collect::<Vec<_>>().join(",")
            });
            rec.put(&format!("enc {t} 1 1 {} {}", hex(&a), list(&esis)), &r.unwrap_or("err".into()));
        }
    }
}

// wide symbols (up to the 65535-byte maximum, odd sizes, Al = 1): column independence and decoding, oracle only
pub fn linear_wide(rec: &mut Recorder, rng: &mut Rng, thorough: bool) {
    let mut ts: Vec<u16> = vec![32767, 32769, 65535, 40001, 16385, 4099, 8191];
    if thorough { ts.extend([65533u16, 49153, 32771, 24577, 12289, 33333]); }
    // … and blocks whose intermediate-symbol slab is large (many symbols AND wide symbols: L*T of 8 MiB and more)
    let mut shapes: Vec<(u32, u16)> = ts.iter().map(|t| (0u32, *t)).collect();
    if !checked_build() { shapes.push((rng.range(126, 150) as u32, 65535)); shapes.push((rng.range(270, 300) as u32, 65528 + 7 * (rng.below(2) as u16))); if thorough { shapes.push((500, 16400)); shapes.push((1050, 9001)); } }
    for (k0, t) in shapes {
        let k = if k0 == 0 { rng.range(4, 9) as u32 } else { k0 };
        if k0 != 0 { rec.count("linear_large_slab"); }
        let tt = t as usize;
        let a = rng.bytes(k as usize * tt);
        let lost: Vec<u32> = { let mut v: Vec<u32> = (0..k).collect(); rng.shuffle(&mut v); v.truncate(rng.range(1, 3) as usize); v };
        let mut cols: Vec<usize> = vec![0, tt - 1, tt - 2, tt / 2, rng.below(t as u64) as usize];
        if k0 != 0 { cols = vec![0, tt - 1, tt * 3 / 4, rng.below(t as u64) as usize]; }
        let (a2, l2) = (a.clone(), lost.clone());
        let r = guarded(move || {
            let cfg = cfg_for(k, t, 1, 1);
            let enc = SourceBlockEncoder::new(0, &cfg, &a2);
            let reps = enc.repair_packets(0, 4);
            let mut bad = vec![];
            let cfg1 = cfg_for(k, 1, 1, 1);
            for j in cols {
                let col: Vec<u8> = (0..k as usize).map(|m| a2[m * tt + j]).collect();
                let e1 = SourceBlockEncoder::new(0, &cfg1, &col);
                let r1 = e1.repair_packets(0, 4);
                for i in 0..4 { if r1[i].data()[0] != reps[i].data()[j] { bad.push(format!("byte column {j} of repair packet {i} is not the one-byte encoding of that column")); } }
                // decoding: the same losses at size T and at size 1
                let mut d1 = SourceBlockDecoder::new(0, &cfg1, k as u64);
                let mut pk1: Vec<EncodingPacket> = e1.source_packets().into_iter().filter(|p| !l2.contains(&p.payload_id().encoding_symbol_id())).collect();
                pk1.extend(r1.iter().take(l2.len()).cloned());
                let o1 = d1.decode(pk1);
                let mut d = SourceBlockDecoder::new(0, &cfg, k as u64 * tt as u64);
                let mut pk: Vec<EncodingPacket> = enc.source_packets().into_iter().filter(|p| !l2.contains(&p.payload_id().encoding_symbol_id())).collect();
                pk.extend(reps.iter().take(l2.len()).cloned());
                let o = d.decode(pk);
                match (o, o1) {
                    (Some(b), Some(b1)) => { if b != a2 { bad.push("decoded block differs from the data".to_string()); } if (0..k as usize).any(|m| b[m * tt + j] != b1[m]) { bad.push(format!("byte column {j} of the decoded block differs from that column decoded alone")); } }
                    (None, None) => {}
                    _ => bad.push(format!("decoding succeeds at one symbol size and not at the other (column {j})")),
                }
            }
            bad
        });
        match r {
            Ok(bad) => { let mut bad = bad; bad.dedup(); for b in bad.iter().take(3) { rec.impl_violation(format!("symbol-size independence violated at K={k} T={t}, lost source symbols {:?}: {b}", lost)); } }
            Err(_) => rec.impl_violation(format!("encoder/decoder panics at K={k} T={t}")),
        }
        rec.count("linear_wide_symbols");
    }
}

// exact Clopper–Pearson lower confidence bound for a binomial proportion: the p with
// P(X >= k | n, p) = alpha (0 when k = 0)
// the largest blocks with small-but-not-tiny symbols (slabs of some megabytes whose rows are shorter than a vector
// register): byte column j of every packet is the packet of column j encoded alone, and the block round-trips.
// Unchecked builds only (checked builds re-verify the solver's matrix in O(L^3)).
pub fn linear_huge_blocks(rec: &mut Recorder, rng: &mut Rng, thorough: bool) {
    if checked_build() { return; }
    let cases: Vec<(u32, u16)> = if thorough { vec![(40000, 56), (56403, 40), (33000, 63), (56403, 63), (20000, 120)] } else { vec![(44000 + rng.below(12403) as u32, 50 + rng.below(14) as u16)] };
    for (k, t) in cases {
        let data = rng.bytes(k as usize * t as usize);
        let cols: Vec<usize> = vec![0, t as usize - 1, rng.below(t as u64) as usize];
        let start = rng.below(1 << 22) as u32;
        let r = guarded(move || {
            let mut bad = vec![];
            let enc = SourceBlockEncoder::new(0, &cfg_for(k, t, 1, 1), &data);
            let rep = enc.repair_packets(start, 6);
            for j in cols {
                let col: Vec<u8> = (0..k as usize).map(|i| data[i * t as usize + j]).collect();
                let e1 = SourceBlockEncoder::new(0, &cfg_for(k, 1, 1, 1), &col);
                let r1 = e1.repair_packets(start, 6);
                for (a, b) in rep.iter().zip(&r1) { if a.data()[j] != b.data()[0] { bad.push(format!("byte {j} of repair packet ESI {} differs from the packet of byte column {j} encoded alone", a.payload_id().encoding_symbol_id())); break; } }
            }
            let mut pk = enc.source_packets();
            for i in [0usize, 17, 4000, k as usize - 1] { pk[i] = rep[0].clone(); }
            pk.extend(rep[1..].iter().cloned());
            let mut dec = SourceBlockDecoder::new(0, &cfg_for(k, t, 1, 1), k as u64 * t as u64);
            if dec.decode(pk).as_deref() != Some(&data[..]) { bad.push("the block does not round-trip with four lost source symbols".into()); }
            bad
        });
        match r {
            Ok(bad) => for b in bad.iter().take(3) { rec.impl_violation(format!("huge block K={k} T={t}: {b}")); },
            Err(_) => rec.impl_violation(format!("encoder/decoder panics for the huge block K={k} T={t}")),
        }
        rec.count("linear_huge_blocks");
    }
}

pub fn cp_lower(k: u64, n: u64, alpha: f64) -> f64 {
    if k == 0 { return 0.0; }
    let tail_ge = |p: f64| -> f64 {
        // 1 - sum_{i<k} C(n,i) p^i (1-p)^(n-i), in log space
        let (lp, lq) = (p.ln(), (1.0 - p).ln());
        let mut logc = 0.0f64; // log C(n,0)
        let mut s = 0.0f64;
        for i in 0..k {
            if i > 0 { logc += ((n - i + 1) as f64).ln() - (i as f64).ln(); }
            s += (logc + i as f64 * lp + (n - i) as f64 * lq).exp();
        }
        1.0 - s
    };
    let (mut lo, mut hi) = (0.0f64, k as f64 / n as f64);
    for _ in 0..200 {
        let mid = (lo + hi) / 2.0;
        if tail_ge(mid) < alpha { lo = mid; } else { hi = mid; }
    }
    lo
}

// ---------------------------------------------------------------- reception overhead (C03) + singular-set harvest (C02)
pub fn overhead(rec: &mut Recorder, rng: &mut Rng, thorough: bool) {
    let ks: Vec<u32> = if thorough { vec![10, 11, 26, 55, 101, 180, 300] } else { vec![10, 13, 26, 60] };
    let trials: u64 = if thorough { 150_000 } else { 6_000 };
    let bounds = [0.01f64, 0.0001, 0.00001];
    let mut fails = [0u64; 3];
    let mut total = [0u64; 3];
    for &k in &ks {
        let t = 1u16;
        let data = rng.bytes(k as usize);
        let cfg = cfg_for(k, t, 1, 1);
        let enc = SourceBlockEncoder::new(0, &cfg, &data);
        let src = enc.source_packets();
        let kp = rq::extended_source_block_symbols(k);
        for h in 0..3usize {
            let n = if h == 0 { trials } else { trials / 2 } / if k > 150 { 4 } else { 1 };
            for it in 0..n {
                // uniformly random (K+h)-subset of the 2^24 encoding symbols
                // … or (every other trial) a mix: a uniformly chosen number of source symbols, the rest repair
                // symbols from the whole range, delivered in a random order - K of them at once, the extra ones singly
                let mixed = it % 2 == 1;
                let mut set = std::collections::BTreeSet::new();
                if mixed {
                    let ns = rng.below(k as u64) as usize;
                    while set.len() < ns { set.insert(rng.below(k as u64) as u32); }
                    // now and then symbols from the very end of the id space (their internal ids pass 2^24 when the block is padded)
                    if rng.chance(1, 6) { for _ in 0..rng.range(1, 3) { set.insert((1u32 << 24) - 1 - rng.below((kp - k + 2) as u64) as u32); } rec.count("overhead_top_of_id_space"); }
                    while set.len() < k as usize + h { set.insert(k + (rng.next() % ((1u64 << 24) - k as u64)) as u32); }
                    while set.len() > k as usize + h { let last = *set.iter().next().unwrap(); set.remove(&last); }
                }
                while set.len() < k as usize + h { set.insert((rng.next() & 0xFF_FFFF) as u32); }
                let esis: Vec<u32> = set.into_iter().collect();
                let mut pk: Vec<EncodingPacket> = esis.iter().map(|e| if *e < k { src[*e as usize].clone() } else { enc.repair_packets(e - k, 1).remove(0) }).collect();
                if mixed { rng.shuffle(&mut pk); rec.count("overhead_mixed_incremental"); }
                let sparse = (it / 2) % 2 == 0;
                let r = guarded(move || {
                    let mut dec = SourceBlockDecoder::new(0, &cfg, k as u64);
                    dec.set_sparse_threshold(if sparse { 0 } else { 1 << 30 });
                    if mixed {
                        let rest = pk.split_off(k as usize);
                        let mut out = dec.decode(pk);
                        for p in rest { let o = dec.decode(vec![p]); if o.is_some() { out = o; } }
                        out
                    } else { dec.decode(pk) }
                });
                total[h] += 1;
                let ok = match &r {
                    Ok(Some(b)) => { if *b != data { rec.impl_violation(format!("wrong bytes from K={k} ESIs {}", list(&esis))); } true }
                    Ok(None) => false,
                    Err(_) => { rec.impl_violation(format!("decoder panics K={k} ESIs {}", list(&esis))); false }
                };
                if !ok { fails[h] += 1; }
                // the certified rank oracle decides every failure and a sample of the successes
                if !ok || it % 16 == 0 {
                    // ISIs in the decoder's row order: received source, padding, repair
                    let mut isis: Vec<u32> = esis.iter().copied().filter(|e| *e < k).collect();
                    isis.extend(k..kp);
                    isis.extend(esis.iter().filter(|e| **e >= k).map(|e| e + (kp - k)));
                    let all_src = esis.iter().filter(|e| **e < k).count() == k as usize;
                    if !all_src {
                        rec.put(&format!("rank {k} {}", list(&isis)), if ok { "solved" } else { "singular" });
                        rec.count(if ok { "oracle_checked_success" } else { "oracle_checked_failure" });
                    }
                }
            }
            rec.add(&format!("trials_h{h}"), n);
        }
    }
    for h in 0..3 {
        rec.add(&format!("failures_h{h}"), fails[h]);
        let lb = cp_lower(fails[h], total[h], 1e-9);
        rec.add(&format!("failure_rate_h{h}_ppm"), (fails[h] as f64 / total[h] as f64 * 1e6) as u64);
        rec.add(&format!("cp_lower_1e-9_h{h}_ppb"), (lb * 1e9) as u64);
        if lb > bounds[h] {
            rec.impl_violation(format!("reception overhead: {} failures in {} decodes with {h} extra symbols; the exact lower confidence bound {lb:.3e} (confidence 1-1e-9) exceeds the advertised {}", fails[h], total[h], bounds[h]));
        }
    }
    if fails[0] < 10 {
        rec.count("generator_too_weak_singular_sets");
    }
}

// the public-API workload alone (the std side of the comparison with the no_std build of the crate)
pub fn workload_only(rec: &mut Recorder, thorough: bool, outdir: &str, seed: u64) {
    let lines = crate::workload::run(seed, !thorough);
    std::fs::write(format!("{outdir}/workload.txt"), lines.join("\n") + "\n").unwrap();
    for l in &lines {
        if l.ends_with("correct=false") || l.contains("WRONG") || l.contains("roundtrip=false") { rec.impl_violation(format!("workload case fails: {l}")); }
        rec.count("workload_lines");
    }
}

// ---------------------------------------------------------------- configuration independence (C07)
pub fn configs(rec: &mut Recorder, rng: &mut Rng, thorough: bool, outdir: &str, seed: u64) {
    use crate::workload;
    use raptorq::verif::verif_kernels as vk;
    let _ = rng;
    // (1) the public-API workload, identical text in every build of every harness
    let lines = workload::run(seed, !thorough);
    std::fs::write(format!("{outdir}/workload.txt"), lines.join("\n") + "\n").unwrap();
    for l in &lines { if l.ends_with("correct=false") || l.contains("WRONG") || l.contains("roundtrip=false") { rec.impl_violation(format!("workload case decodes to wrong bytes: {l}")); } }
    // (2) tie to the model + per-configuration comparison
    let cases = workload::cases(seed, !thorough);
    for c in &cases {
        let cfg = Oti::new(c.f, c.t, c.z, c.n, c.al);
        REPAIR.with(|r| r.set(c.repair));
        vk::set_ceiling(vk::NO_CEILING);
        let canon = Encoder::new(&c.data, cfg).get_encoded_packets(c.repair);
        if c.f <= 4000 {
            rec.put(&format!("objenc {} {} {} {} {} {} {}", c.f, c.t, c.z, c.n, c.al, hex(&c.data), c.repair), &format!("{} {}", canon.len(), digest(&pkts_str(&canon))));
        }
        // erasure pattern (same as the workload's)
        let kept: Vec<EncodingPacket> = canon.iter().enumerate().filter(|(i, _)| (*i as u64 * 2654435761 + c.f) % 7 > 1).map(|(_, p)| p.clone()).collect();
        let outcome = |thr: Option<u32>| -> Vec<Option<Vec<u8>>> {
            let mut dec = Decoder::new(cfg);
            if let Some(t) = thr { dec.set_sparse_threshold(t); }
            kept.iter().map(|p| dec.decode(p.clone())).collect()
        };
        let canon_out = outcome(None);
        for level in [vk::AVX512, vk::AVX2, vk::SSSE3, vk::PORTABLE] {
            vk::set_ceiling(level);
            for thr in [0u32, 250, u32::MAX] {
                // encoders: whole-object, and per block in the three plan modes
                let (d2, kept2) = (c.data.clone(), kept.clone());
                let _ = kept2;
                let r = guarded(move || {
                    let offs = raptorq::calculate_block_offsets(&d2, &cfg);
                    let mut all: Vec<Vec<EncodingPacket>> = vec![vec![], vec![], vec![]];
                    for (b, (s, e)) in offs.iter().enumerate() {
                        let mut block = d2[*s..(*e).min(d2.len())].to_vec();
                        block.resize(e - s, 0);
                        let k = (block.len() / cfg.symbol_size() as usize) as u16;
                        let encs = [
                            SourceBlockEncoder::new(b as u8, &cfg, &block),
                            SourceBlockEncoder::with_encoding_plan(b as u8, &cfg, &block, &SourceBlockEncodingPlan::verif_generate(k, thr).unwrap()),
                            SourceBlockEncoder::verif_new_unplanned(b as u8, &cfg, &block, thr).unwrap(),
                        ];
                        for (m, e) in encs.iter().enumerate() {
                            all[m].extend(e.source_packets());
                            all[m].extend(e.repair_packets(0, c_repair(&cfg, 0)));
                        }
                    }
                    all
                });
                fn c_repair(_: &Oti, x: u32) -> u32 { x }
                match r {
                    Ok(all) => {
                        for (m, pk) in all.iter().enumerate() {
                            // source packets + zero repair packets here; repair compared below
                            let want: Vec<&EncodingPacket> = canon.iter().filter(|p| (p.payload_id().encoding_symbol_id() as usize) < block_k(&canon, p.payload_id().source_block_number())).collect();
                            if pk.iter().collect::<Vec<_>>() != want {
                                rec.impl_violation(format!("source packets differ in configuration path={level} threshold={thr} mode={m}: F={} T={} Z={}", c.f, c.t, c.z));
                            }
                        }
                    }
                    Err(_) => rec.impl_violation(format!("encoder panics in configuration path={level} threshold={thr}: F={} T={} Z={}", c.f, c.t, c.z)),
                }
                // full packets through the object encoder under this path, and repair packets per mode
                let d3 = c.data.clone();
                let rep = c.repair;
                let r = guarded(move || Encoder::new(&d3, cfg).get_encoded_packets(rep));
                if r.as_ref().ok() != Some(&canon) {
                    rec.impl_violation(format!("packets differ on kernel path {level}: F={} T={} Z={} N={} Al={}", c.f, c.t, c.z, c.n, c.al));
                }
                let out = outcome(Some(thr));
                if out != canon_out {
                    rec.impl_violation(format!("decoder outcome differs in configuration path={level} threshold={thr}: F={} T={} Z={} N={} Al={}", c.f, c.t, c.z, c.n, c.al));
                }
                rec.count("configurations");
            }
        }
        vk::set_ceiling(vk::NO_CEILING);
        // repair packets in the three plan modes and thresholds (single-block cases)
        if c.z == 1 {
            let k = canon.iter().filter(|p| true && p.payload_id().source_block_number() == 0).count() as u32 - c.repair;
            let mut block = c.data.clone();
            block.resize(k as usize * c.t as usize, 0);
            for thr in [0u32, 250, u32::MAX] {
                let encs = [
                    SourceBlockEncoder::with_encoding_plan(0, &cfg, &block, &SourceBlockEncodingPlan::verif_generate(k as u16, thr).unwrap()),
                    SourceBlockEncoder::verif_new_unplanned(0, &cfg, &block, thr).unwrap(),
                    SourceBlockEncoder::new(0, &cfg, &block),
                ];
                for (m, e) in encs.iter().enumerate() {
                    let mut pk = e.source_packets();
                    pk.extend(e.repair_packets(0, c.repair));
                    if pk != canon { rec.impl_violation(format!("packets differ with plan mode {m} at threshold {thr}: F={} T={}", c.f, c.t)); }
                }
                rec.count("plan_mode_checks");
            }
        }
        rec.count("cases");
    }
    backend_rows(rec, rng, thorough);
}

// dense vs sparse back-end on Table-2 rows whose shape is word-boundary sensitive (number of PI
// symbols P = 0, 1, 63 mod 64) — unchecked builds only (checked builds self-verify in O(L^3))
pub fn backend_rows(rec: &mut Recorder, rng: &mut Rng, thorough: bool) {
    if checked_build() { rec.count("backend_rows_skipped_checked_build"); return; }
    let t2 = rq::SYSTEMATIC_INDICES_AND_PARAMETERS;
    let lim = if thorough { 7000 } else { 1800 };
    for (kp, _, s, h, w) in t2.iter().copied() {
        let p = kp + s + h - w;
        if kp > lim || !(p % 64 == 0 || p % 64 == 1 || p % 64 == 63 || rng.chance(1, if thorough { 8 } else { 60 })) { continue; }
        let k = kp;
        let data = rng.bytes(k as usize);
        let cfg = cfg_for(k, 1, 1, 1);
        let d2 = data.clone();
        let r = guarded(move || {
            let a = SourceBlockEncoder::verif_new_unplanned(0, &cfg, &d2, 0).map(|e| e.verif_intermediate_symbols());
            let b = SourceBlockEncoder::verif_new_unplanned(0, &cfg, &d2, u32::MAX).map(|e| e.verif_intermediate_symbols());
            let enc = SourceBlockEncoder::new(0, &cfg, &d2);
            let mut pk = enc.source_packets();
            pk.drain(0..3.min(pk.len()));
            pk.extend(enc.repair_packets(0, 5));
            let outs: Vec<Option<Vec<u8>>> = [0u32, u32::MAX].iter().map(|thr| { let mut dec = SourceBlockDecoder::new(0, &cfg, k as u64); dec.set_sparse_threshold(*thr); dec.decode(pk.clone()) }).collect();
            (a, b, outs)
        });
        match r {
            Ok((a, b, outs)) => {
                if a.is_none() || a != b { rec.impl_violation(format!("dense and sparse back-ends give different intermediate symbols (or fail) for K'={kp} (P={p})")); }
                if outs[0] != outs[1] || outs[0].as_deref() != Some(&data[..]) { rec.impl_violation(format!("decoding depends on the matrix back-end for K'={kp} (P={p})")); }
            }
            Err(_) => rec.impl_violation(format!("a matrix back-end panics for K'={kp} (P={p}, sparse threshold 0 / infinity)")),
        }
        rec.count("backend_rows");
        if p % 64 == 0 { rec.count("backend_rows_P_multiple_of_64"); }
    }
}

fn block_k(canon: &[EncodingPacket], sbn: u8) -> usize {
    // number of source symbols of a block = count of its packets minus the repair packets; the
    // repair count is the same for all blocks, so derive it from the largest ESI gap-free prefix
    let mut esis: Vec<u32> = canon.iter().filter(|p| p.payload_id().source_block_number() == sbn).map(|p| p.payload_id().encoding_symbol_id()).collect();
    esis.sort();
    let total = esis.len();
    let blocks: std::collections::BTreeSet<u8> = canon.iter().map(|p| p.payload_id().source_block_number()).collect();
    let _ = blocks;
    // repair packets were requested as `repair` per block: the caller filters by ESI < K where
    // K = total - repair; recover repair as the count shared by all blocks (total of smallest block - its K)
    total - REPAIR.with(|r| r.get()) as usize
}

thread_local! { static REPAIR: std::cell::Cell<u32> = std::cell::Cell::new(0); }

// ---------------------------------------------------------------- fast path vs full solve (C02): sets whose binary-only
// system is rank deficient while the full system (with HDPC rows) is not
pub fn fastpath(rec: &mut Recorder, rng: &mut Rng, thorough: bool) {
    let n = if thorough { 300 } else { 40 };
    let mut made = 0;
    let mut attempts = 0;
    while made < n && attempts < n * 20 {
        attempts += 1;
        let k = *rng.pick(&[10u32, 11, 12, 18, 20, 26, 30, 32, 36, 42]);
        let kp = rq::extended_source_block_symbols(k);
        let (s, h, w) = (rq::num_ldpc_symbols(k), rq::num_hdpc_symbols(k), rq::num_lt_symbols(k));
        let l = kp + s + h;
        let p = l - w;
        let (j, p1) = (rq::systematic_index(k), rq::calculate_p1(k));
        // PI columns not touched by any LDPC row
        let mut covered = vec![false; p as usize];
        for i in 0..s { covered[(i % p) as usize] = true; covered[((i + 1) % p) as usize] = true; }
        let free: Vec<u32> = (0..p).filter(|c| !covered[*c as usize]).collect();
        if free.is_empty() { continue; }
        let col = (w + *rng.pick(&free)) as usize;
        let touches = |isi: u32| -> bool { let mut hit = false; rq::enc_indices(rq::intermediate_tuple(isi, w, j, p1), w, p, p1, |c| if c == col { hit = true; }); hit };
        // source symbols that avoid the column, minus a few so that the solver is needed
        let mut src_ok: Vec<u32> = (0..k).filter(|i| !touches(*i)).collect();
        if (k..kp).any(|i| touches(i)) { continue; } // padding rows are always present
        rng.shuffle(&mut src_ok);
        let drop_src = rng.range(2, 4) as usize;
        src_ok.truncate(src_ok.len().saturating_sub(drop_src));
        // repair symbols avoiding the column, enough for overhead >= 2H + a few
        let want = (k as usize + 2 * h as usize + rng.below(4) as usize).saturating_sub(src_ok.len());
        let mut reps = std::collections::BTreeSet::new();
        let mut tries = 0;
        while reps.len() < want && tries < 200000 { tries += 1; let e = pick_repair_esi(rng, k); if !touches(e + (kp - k)) { reps.insert(e); } }
        if reps.len() < want { continue; }
        let t = rng.range(1, 3) as u16;
        let data = rng.bytes(k as usize * t as usize);
        let cfg = cfg_for(k, t, 1, 1);
        let enc = SourceBlockEncoder::new(0, &cfg, &data);
        let src = enc.source_packets();
        let mut pk: Vec<EncodingPacket> = src_ok.iter().map(|i| src[*i as usize].clone()).collect();
        pk.extend(reps.iter().map(|e| enc.repair_packets(e - k, 1).remove(0)));
        rng.shuffle(&mut pk);
        // streaming (one by one) and bulk
        let sparse = made % 2 == 0;
        let pk2 = pk.clone();
        let r = guarded(move || {
            let mut dec = SourceBlockDecoder::new(0, &cfg, k as u64 * t as u64);
            dec.set_sparse_threshold(if sparse { 0 } else { 1 << 30 });
            let mut outs: Vec<Option<Vec<u8>>> = pk2.iter().map(|p| dec.decode(vec![p.clone()])).collect();
            let mut bulk = SourceBlockDecoder::new(0, &cfg, k as u64 * t as u64);
            outs.push(bulk.decode(pk2.clone()));
            outs
        });
        let mut batches: Vec<String> = pk.iter().map(|p| format!("{}:{}", p.payload_id().encoding_symbol_id(), hex(p.data()))).collect();
        let req_stream = format!("decblk {k} {t} 1 1 {}", batches.join("/"));
        let req_bulk = format!("decblk {k} {t} 1 1 {}", batches.join(","));
        batches.clear();
        match r {
            Ok(outs) => {
                let (stream, bulk) = outs.split_at(outs.len() - 1);
                let mut seen = false;
                for o in stream { match o { Some(b) if *b != data => rec.impl_violation(format!("wrong bytes K={k}")), Some(_) => seen = true, None if seen => rec.impl_violation(format!("block decoder gives up after having answered: K={k} T={t}, binary-deficient set avoiding column {col} ({} symbols)", pk.len())), None => {} } }
                rec.put(&req_stream, &stream.iter().map(res_str).collect::<Vec<_>>().join(" "));
                rec.put(&req_bulk, &res_str(&bulk[0]));
                rec.put(&req_bulk.replacen("decblk ", &format!("decblkpi {} ", if sparse { "sparse" } else { "dense" }), 1), &res_str(&bulk[0]));
                rec.put(&req_bulk.replacen("decblk ", &format!("decblkpi {}ck ", if sparse { "sparse" } else { "dense" }), 1), &res_str(&bulk[0]));
                rec.put(&format!("deccase {k} {t} {}", req_bulk.rsplit(' ').next().unwrap()), if bulk[0].is_some() { "Rq.DecCase.c3b" } else { "Rq.DecCase.c3fail" });
                rec.count(if bulk[0].is_some() { "fastpath_full_solve_succeeds" } else { "fastpath_both_fail" });
            }
            Err(_) => { rec.impl_violation(format!("decoder panics on a binary-deficient set K={k}")); rec.put(&req_bulk, "err"); }
        }
        made += 1;
    }
    rec.add("fastpath_sets", made as u64);
}

// ---------------------------------------------------------------- the five-phase solver, op for op (C02 C06 C07): the operation vector
// recorded by IntermediateSymbolDecoder::execute() against the Lean model of pi_solver.rs
pub fn solver(rec: &mut Recorder, rng: &mut Rng, thorough: bool) {
    let opsdigest = |ops: &Option<Vec<rq::SymbolOps>>| -> String {
        match ops { None => "none".to_string(), Some(o) => { let s = ops_str(o); format!("{} {}", o.len(), fnv(s.as_bytes())) } }
    };
    // encoder-side systems
    let t2 = table_k();
    let ks: Vec<u32> = if thorough { t2.iter().copied().filter(|k| *k <= 3000).collect() } else {
        let mut v: Vec<u32> = t2.iter().copied().filter(|k| *k <= 260).collect();
        for k in [511u32, 1002, 1649] { v.push(k); }
        v
    };
    let checked = checked_build();
    for k in ks {
        if checked && k > 300 { continue; } // checked builds self-verify in O(L^3)
        for (be, thr) in [("dense", u32::MAX), ("sparse", 0u32)] {
            if be == "dense" && k > 1100 && !thorough { continue; }
            let r = guarded(move || SourceBlockEncodingPlan::verif_generate(k as u16, thr).map(|p| p.verif_operations().to_vec()));
            match r {
                Ok(ops) => rec.put(&format!("pisolve {k} - {be}"), &opsdigest(&ops)),
                Err(_) => { rec.impl_violation(format!("solver panics for the encoder system of K'={k} on the {be} back-end")); rec.put(&format!("pisolve {k} - {be}"), "err"); }
            }
            rec.count(&format!("solver_enc_{be}"));
        }
    }
    // decoder-side systems: erasures, overhead 0..3, ISIs over the 24-bit range, incl. rank-deficient sets
    let n = if thorough { 1500 } else { 200 };
    let extra = if thorough { 12000 } else { 1500 }; // small K, no overhead: harvests sets on which the solver gives up
    // heavy loss (most or all source symbols missing): the first phase then meets rows with r >= 3 ones in V,
    // a branch ordinary receptions never reach
    let heavy = if thorough { 8000 } else { 900 };
    for it in 0..(n + extra + heavy) {
        let small = it >= n;
        let is_heavy = it >= n + extra;
        let k = if is_heavy { rng.range(5, 60) as u32 } else if small { rng.range(5, 26) as u32 } else { pick_k(rng, if it % 20 == 19 { 300 } else { 90 }) };
        let kp = rq::extended_source_block_symbols(k);
        let lost = if is_heavy { if rng.chance(1, 2) { k as usize } else { rng.range((k as u64 * 2 / 3).max(1), k as u64) as usize } }
                   else { rng.range(1, (k as u64 / 3).max(1)) as usize };
        if is_heavy { rec.count("solver_dec_heavy_loss"); }
        // half of the heavy systems: only symbols of LT degree >= 3 (and K = K', no padding rows), so that the
        // first phase starts with r >= 3 and takes the multi-column swap substep with occupied trailing columns
        let highdeg = is_heavy && it % 2 == 0;
        let k = if highdeg { *rng.pick(&[10u32, 12, 18, 20, 26, 30, 32, 36, 42, 46, 48, 49, 55, 60]) } else { k };
        let kp = if highdeg { k } else { kp };
        let lost = if highdeg { k as usize } else { lost };
        let mut idx: Vec<u32> = (0..k).collect();
        rng.shuffle(&mut idx);
        let mut src: Vec<u32> = idx[lost.min(k as usize)..].to_vec();
        src.sort();
        let h: usize = if small { 0 } else if is_heavy { if highdeg && it % 8 == 0 && k <= 30 { rng.range(100, 260) as usize } else { rng.below(3) as usize } } else { match rng.below(8) { 0..=3 => 0, 4..=5 => 1, 6 => 2, _ => 12 } };
        if h >= 100 { rec.count("solver_dec_high_degree_heavy_overhead"); }
        let mut reps = std::collections::BTreeSet::new();
        if highdeg {
            let (w, j, p1) = (rq::num_lt_symbols(k), rq::systematic_index(k), rq::calculate_p1(k));
            let mut guard = 0;
            // only symbols of LT degree >= 3, 4 or 5: the first steps then have r = 3, 4, 5
            let mindeg: u32 = 3 + (it as u32 / 2 % 3);
            rec.count(&format!("solver_dec_min_degree_{mindeg}"));
            while reps.len() < k as usize + h && guard < 100000 {
                guard += 1;
                let e = pick_repair_esi(rng, k);
                if rq::intermediate_tuple(e + (kp - k), w, j, p1).0 >= mindeg { reps.insert(e); }
            }
            rec.count("solver_dec_high_degree_only");
        }
        while reps.len() < lost.min(k as usize) + h { reps.insert(pick_repair_esi(rng, k)); }
        let mut isis: Vec<u32> = src.clone();
        isis.extend(k..kp);
        let mut rep: Vec<u32> = reps.into_iter().map(|e| e + (kp - k)).collect();
        rng.shuffle(&mut rep);
        isis.extend(rep);
        let only = if small || is_heavy { Some(if (if is_heavy { it / 2 } else { it }) % 2 == 0 { "dense" } else { "sparse" }) } else { None };
        solve_and_record(rec, &opsdigest, k, kp, &isis, only, small || is_heavy || it % 3 == 0);
    }
    // twin rows: two repair symbols with identical rows make the system singular in a way the first phase can
    // already notice (no row with a one left in V) - the solver's other give-up exit
    for &k in &[10u32, 12, 18, 20, 26, 30, 32, 36] {
        let (w, j, p1) = (rq::num_lt_symbols(k), rq::systematic_index(k), rq::calculate_p1(k));
        let p = k + rq::num_ldpc_symbols(k) + rq::num_hdpc_symbols(k) - w;
        let mut seen: std::collections::HashMap<Vec<usize>, u32> = std::collections::HashMap::new();
        let mut tw: Vec<(u32, u32)> = vec![];
        for isi in k..(k + if thorough { 600000 } else { 150000 }) {
            let mut v = vec![];
            rq::enc_indices(rq::intermediate_tuple(isi, w, j, p1), w, p, p1, |c| v.push(c));
            v.sort();
            if let Some(&o) = seen.get(&v) { tw.push((o, isi)); } else { seen.insert(v, isi); }
        }
        rng.shuffle(&mut tw);
        // several twin pairs at once: more dependent rows than the first phase inactivates columns, so it
        // runs out of rows with a one in V (its own give-up exit, as opposed to the second phase's)
        for c in 0..(if thorough { 30 } else { 5 }) {
            let m = 2 + (c % 3);
            if tw.len() < m || k < 2 * m as u32 + 1 { continue; }
            let mut isis: Vec<u32> = (0..k).collect();
            rng.shuffle(&mut isis);
            isis.truncate(k as usize - 2 * m);
            isis.sort();
            let mut reps = std::collections::BTreeSet::new();
            let off = rng.below((tw.len() - m + 1) as u64) as usize;
            for &(a, b) in &tw[off..off + m] { reps.insert(a); reps.insert(b); }
            while reps.len() < 2 * m { reps.insert(pick_repair_esi(rng, k)); }
            isis.extend(reps.into_iter());
            rec.count("solver_dec_many_twin_rows");
            solve_and_record(rec, &opsdigest, k, k, &isis, None, true);
        }
        // whole groups of identical rows (degree-1 symbols repeat often over the 24-bit id space)
        if k <= 12 {
            let mut groups: std::collections::HashMap<Vec<usize>, Vec<u32>> = std::collections::HashMap::new();
            for isi in k..(1u32 << 22) {
                let t = rq::intermediate_tuple(isi, w, j, p1);
                if t.0 != 1 { continue; }
                let mut v = vec![];
                rq::enc_indices(t, w, p, p1, |c| v.push(c));
                v.sort();
                groups.entry(v).or_default().push(isi);
            }
            let mut big: Vec<Vec<u32>> = groups.into_values().filter(|g| g.len() >= 4).collect();
            big.sort();
            for c in 0..(if thorough { 60 } else { 8 }) {
                if big.len() < 2 { break; }
                let nsrc = rng.range(0, 3) as usize;
                let mut isis: Vec<u32> = (0..k).collect();
                rng.shuffle(&mut isis);
                isis.truncate(nsrc);
                isis.sort();
                let mut reps = std::collections::BTreeSet::new();
                let ng = 2 + c % 2;
                for _ in 0..ng { let g = rng.pick(&big).clone(); for e in g.iter().take(rng.range(3, 5) as usize) { reps.insert(*e); } }
                while isis.len() + reps.len() < k as usize + (c % 3) { reps.insert(pick_repair_esi(rng, k)); }
                isis.extend(reps.into_iter());
                rec.count("solver_dec_groups_of_identical_rows");
                solve_and_record(rec, &opsdigest, k, k, &isis, None, true);
            }
        }
        for &(a, b) in tw.iter().take(if thorough { 40 } else { 6 }) {
            let lost = rng.range(2, 5.min(k as u64)) as usize;
            let mut idx: Vec<u32> = (0..k).collect();
            rng.shuffle(&mut idx);
            let mut isis: Vec<u32> = idx[lost..].to_vec();
            isis.sort();
            let mut reps = std::collections::BTreeSet::new();
            reps.insert(a); reps.insert(b);
            let extra = rng.below(2) as usize;
            while reps.len() < lost + extra { let e = pick_repair_esi(rng, k); reps.insert(e); }
            let mut rep: Vec<u32> = reps.into_iter().collect();
            rng.shuffle(&mut rep);
            isis.extend(rep);
            rec.count("solver_dec_twin_rows");
            solve_and_record(rec, &opsdigest, k, k, &isis, None, true);
        }
    }
}

// one decoder-side system on the crate's solver: operation-vector digest (tie to the solver model) and the
// translation validation of the run (opscert)
fn solve_and_record(rec: &mut Recorder, opsdigest: &dyn Fn(&Option<Vec<rq::SymbolOps>>) -> String, k: u32, kp: u32, isis: &[u32], only: Option<&str>, cert: bool) {
    for be in ["dense", "sparse"] {
        if let Some(o) = only { if o != be { continue; } }
        let isis2 = isis.to_vec();
        let sparse = be == "sparse";
        let r = guarded(move || {
            let rows = (rq::num_ldpc_symbols(k) + rq::num_hdpc_symbols(k)) as usize + isis2.len();
            let d = raptorq::SymbolSlab::with_zeros(rows, 1);
            if sparse {
                let (a, hd) = rq::generate_constraint_matrix::<SparseBinaryMatrix>(k, &isis2);
                rq::fused_inverse_mul_symbols(a, hd, d, k).1
            } else {
                let (a, hd) = rq::generate_constraint_matrix::<DenseBinaryMatrix>(k, &isis2);
                rq::fused_inverse_mul_symbols(a, hd, d, k).1
            }
        });
        match r {
            Ok(ops) => {
                rec.count(if ops.is_some() { "solver_dec_solved" } else { "solver_dec_gave_up" });
                rec.put(&format!("pisolve {k} {} {be}", list(isis)), &opsdigest(&ops));
                // translation validation of this very run, independent of the solver model: the crate's own
                // operation vector must be a left-inverse certificate (theorem cert_sound), and a give-up
                // must be confirmed singular by the verified oracle
                if kp <= 130 && cert {
                    let expect = if ops.is_some() { "cert=ok oracle=determined" } else { "gaveup oracle=singular" };
                    let os = match &ops { Some(o) => ops_str(o), None => "none".to_string() };
                    rec.put(&format!("opscert {k} {} {os}", list(isis)), expect);
                    rec.count(if ops.is_some() { "opscert_solved" } else { "opscert_gave_up" });
                }
            }
            Err(_) => { rec.impl_violation(format!("solver panics on a decoder-side system K={k} ({be} back-end), received internal symbol ids {}", list(isis))); rec.put(&format!("pisolve {k} {} {be}", list(isis)), "err"); }
        }
    }
}
